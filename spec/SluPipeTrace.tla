---------------------------- MODULE SluPipeTrace ----------------------------
(***************************************************************************)
(* Trace validation for SluPipe: an execution of the real p?gstrf,         *)
(* recorded through the SLU_MT_VERIF hooks (one ndjson line per event,     *)
(* globally ordered by an atomic sequence number), must be a behaviour of  *)
(* SluPipe.  Every trace action is the original SluPipe action conjoined   *)
(* with equality on every logged field, so the invariants of SluPipe are   *)
(* evaluated after every event of the real execution.                      *)
(*                                                                         *)
(* File layout:  line 1 = Config (matrix/forest/parameters as computed by  *)
(* the library), line 2 = Create (slot map of lusup), then the events,     *)
(* then JoinAll, FixupMove*, Wrap and the projected Result.                *)
(* Code numbers columns, supernodes and threads from 0; the model from 1.  *)
(***************************************************************************)
EXTENDS SluPipe, SluLU, SluPivot, Json, IOUtils

Tr  == ndJsonDeserialize(IOEnv.TRACE)
Cfg == Tr[1]
Crt == Tr[2]
TN   == Cfg.n
TP   == Cfg.P
TPS  == Cfg.ps
TRL  == Cfg.relax
TMS  == Cfg.maxsuper
TPar == Cfg.etree
TSbnd == {Cfg.sbnd[i] : i \in 1..Len(Cfg.sbnd)}
Set1(q) == {q[i] + 1 : i \in 1..Len(q)}           \* 0-based list -> set of 1-based columns
Col(x) == x + 1                                   \* 0-based -> 1-based; EMPTY (-1) -> 0

(* lusup slots as laid out by p?PresetMap (static mode) *)
Map     == Crt.l                                  \* map_in_sup[0..n]
Dyn     == Crt.a[4] # 0
SlotLead(c) == IF Map[c] < 0 THEN c + Map[c] ELSE c          \* c is 1-based, Map[c] the entry of column c-1
RECURSIVE NextLead(_)
NextLead(c) == IF c > TN THEN TN + 1 ELSE IF Map[c] >= 0 THEN c ELSE NextLead(TLCEval(c + 1))
SlotEnd(lead) == Map[NextLead(lead + 1)]
\* dynamic mode (SuperLU_DYNAMIC_SNODE_STORE): only the relaxed supernodes are laid out in advance,
\* one after the other up to Glu->nextlu; the other H-supernodes get their slot from DynamicSetMap
RelaxLeads == {RLT[i][1] : i \in 1..Len(RLT)}
DynEnd(lead) == IF lead \in RelaxLeads
                THEN LET later == {Map[c] : c \in {x \in RelaxLeads : Map[x] > Map[lead]}} \cup {Crt.a[5]}
                     IN CHOOSE m \in later : \A y \in later : m <= y
                ELSE 0

RegInit == TLCSet(1, 0)
VARIABLES l, slot, slotEnd,
          tseen,     \* tasks as it was at each worker's latest event: an unlocked read made after that event cannot have seen more
          rdone      \* the panels whose STATE = DONE store was logged since each worker's latest event: a scheduler section
                     \* that is logged next may have read their state before the store
tvars == <<vars, l, slot, slotEnd, tseen, rdone>>
E == Tr[l]
Ev(name) == l <= Len(Tr) /\ E.e = name /\ l' = l + 1
Keepslot == UNCHANGED <<slot, slotEnd>>

TInit == /\ RegInit /\ Init /\ l = 3
         /\ slot = [c \in 1..(TN + 1) |-> Map[c]]
         /\ tseen = [p \in Procs |-> tasks]
         /\ rdone = [p \in Procs |-> {}]
         /\ slotEnd = [c \in 1..(TN + 1) |-> IF c > TN \/ Map[c] < 0 THEN 0 ELSE IF Dyn THEN DynEnd(c) ELSE SlotEnd(c)]
         /\ Tr[2].e = "Create" /\ Crt.a[1] = TP /\ Crt.a[2] = TN

\* the loop test is an unlocked read made some time before its event is logged: it may have seen any value
\* tasks has had since the worker's previous event (tasks only decreases), so "positive then" is tseen[p] > 0
TLoop == Ev("Loop") /\ Keepslot /\ LET p == E.p IN LoopWhen(p, tasks > 0 \/ tseen[p] > 0) /\ jcol[p] = Col(E.a[1])
TExit == Ev("Exit") /\ Keepslot /\ LET p == E.p IN ExitRacy(p) /\ sing[p] = E.a[1]
TSched == Ev("Sched") /\ Keepslot /\ LET p == E.p IN
            /\ SchedWith(p, dpend \cup rdone[p])
            /\ jcol[p] = Col(E.a[1])
            /\ jcol'[p] = Col(E.a[2])
            /\ (E.a[2] >= 0 => bcol'[p] = Col(E.a[3]))
            /\ tasks' = E.a[4]
            /\ qhead' - 1 <= E.a[5]          \* dropped idle polls may have skipped stale entries already
            /\ Len(queue') = E.a[6]
TNewNsuper == Ev("NewNsuper") /\ Keepslot /\ LET p == E.p IN
            /\ (SnNew(p) \/ ColNew(p))
            /\ nsuper' = E.a[1] + 1
TLsubAlloc == Ev("LsubAlloc") /\ Keepslot /\ LET p == E.p IN
            /\ (SnAllocN(p, E.a[2]) \/ ColAllocN(p, E.a[2]))
            /\ nextl = E.a[3] + 1
            /\ E.a[3] + E.a[2] <= E.a[4]          \* never past nzlmax
            /\ (IF pc[p] = "salloc" THEN jcol[p] ELSE jj[p]) = Col(E.a[1])
TSnPivot == Ev("SnPivot") /\ Keepslot /\ LET p == E.p IN
            /\ SnPivotZ(p, E.a[3] # 0) /\ jj[p] = Col(E.a[1])
            /\ (E.a[3] # 0 => E.a[3] = jj[p])
\* the supernode reports its first zero-pivot column (0 if none)
TSnFact == Ev("SnFact") /\ Keepslot /\ LET p == E.p  zs == zset \cap MyCols(p) IN
            /\ SnFact(p) /\ jcol[p] = Col(E.a[1]) /\ PSize[jcol[p]] = E.a[2]
            /\ E.a[3] = (IF zs = {} THEN 0 ELSE CHOOSE m \in zs : \A x \in zs : m <= x)
TSnRelease == Ev("SnRelease") /\ Keepslot /\ LET p == E.p IN SnRelease(p) /\ jcol[p] = Col(E.a[1])
TMark == Ev("Mark") /\ Keepslot /\ LET p == E.p IN
            /\ MarkBusy(p) /\ jcol[p] = Col(E.a[1])
            /\ lbusy'[p] = Set1(E.l)
            /\ bcol'[p] = Col(E.a[2])
TDfsBegin == Ev("DfsBegin") /\ Keepslot /\ LET p == E.p IN DfsBegin(p) /\ jcol[p] = Col(E.a[1]) /\ PSize[jcol[p]] = E.a[2]
TDfsEnd == Ev("DfsEnd") /\ Keepslot /\ LET p == E.p IN DfsEnd(p) /\ Set1(E.l) \subseteq Visible(p)
TWait == Ev("Wait") /\ Keepslot /\ LET p == E.p IN WaitCol(p) /\ kcol[p] = Col(E.a[1]) /\ ksup'[p] = E.a[2] + 1
TClimb == Ev("Climb") /\ Keepslot /\ LET p == E.p IN Climb(p) /\ krep'[p] = Col(E.a[1]) /\ kcol'[p] = Col(E.a[2])
TClimbWait == Ev("ClimbWait") /\ Keepslot /\ LET p == E.p IN ClimbWait(p) /\ kcol[p] = Col(E.a[1]) /\ supno[kcol[p]] = E.a[2] + 1
TBusyUpdBegin == Ev("BusyUpdBegin") /\ Keepslot /\ LET p == E.p IN BusyUpdBegin(p) /\ fsupc[p] = Col(E.a[1]) /\ krep[p] = Col(E.a[2])
TBusyUpdEnd == Ev("BusyUpdEnd") /\ Keepslot /\ BusyUpdEnd(E.p)
TJoin == Ev("Join") /\ Keepslot /\ LET p == E.p IN
            /\ ColJoin(p) /\ jj[p] = Col(E.a[1])
            /\ supno'[jj[p]] = E.a[3] + 1 /\ xsupBeg[E.a[3] + 1] = Col(E.a[2])
TPivot == Ev("Pivot") /\ Keepslot /\ LET p == E.p IN
            /\ PivotZ(p, E.a[3] # 0) /\ jj[p] = Col(E.a[1])
            /\ (E.a[3] # 0 => E.a[3] = jj[p])
TRelease == Ev("Release") /\ Keepslot /\ LET p == E.p IN Release(p) /\ jj[p] = Col(E.a[1])
TUAlloc == Ev("UAlloc") /\ Keepslot /\ LET p == E.p IN
            /\ UAllocN(p, E.a[2]) /\ jj[p] = Col(E.a[1])
            /\ nextu = E.a[3] + 1 /\ E.a[3] + E.a[2] <= E.a[4]
TPruneBegin == Ev("PruneBegin") /\ Keepslot /\ LET p == E.p IN PruneBegin(p, Col(E.a[2])) /\ jj[p] = Col(E.a[1])
TPruneEnd == Ev("PruneEnd") /\ Keepslot /\ LET p == E.p IN PruneEnd(p, Col(E.a[2])) /\ jj[p] = Col(E.a[1])
TColDone == Ev("ColDone") /\ Keepslot /\ LET p == E.p IN ColDone(p) /\ jj[p] = Col(E.a[1])
TPanelDone == Ev("PanelDone") /\ Keepslot /\ LET p == E.p IN PanelDone(p) /\ jcol[p] = Col(E.a[1])
\* lusup: the slot of the H-supernode is bumped without a lock and without a bound check in the
\* code; the trace specification checks both the bump and the bound (C05)
TLusupAlloc == Ev("LusupAlloc") /\ LET p == E.p  c == Col(E.a[1])  lead == SlotLead(c) IN
            /\ pc[p] \in {"sfact", "pivot"}
            /\ (IF pc[p] = "sfact" THEN jcol[p] ELSE jj[p]) = c
            /\ lead = Col(E.a[4])
            /\ E.a[3] = slot[lead]
            /\ slot' = [slot EXCEPT ![lead] = @ + E.a[2]]
            /\ UNCHANGED <<vars, slotEnd>>
TDynMap == Ev("DynMap") /\ LET lead == Col(E.a[1]) IN
            /\ Dyn /\ E.a[3] + E.a[2] <= E.a[4]
            /\ slot' = [slot EXCEPT ![lead] = E.a[3]]
            /\ slotEnd' = [slotEnd EXCEPT ![lead] = E.a[3] + E.a[2]]
            /\ UNCHANGED vars
TJoinAll == Ev("JoinAll") /\ Keepslot /\ JoinAll /\ E.a[1] = TP
TFixupMove == Ev("FixupMove") /\ Keepslot /\
            /\ FixupMoveL(E.a[4])
            /\ Head(fixq) = E.a[1] + 1
            /\ lsubOff[Head(fixq)] = E.a[2] + 1
            /\ fdst = E.a[3] + 1
            /\ E.a[4] = Keep(Head(fixq))
TWrap == Ev("Wrap") /\ Keepslot /\ Wrap /\ nsuper = E.a[3] + 1 /\ minfo = E.a[4]
\* the projected result of the call (harness side): the same abstract state, seen through the API
ResultOK(R) == /\ R.info = minfo
               /\ R.thrAfter = R.thrBefore                       \* C04: no thread left
               /\ R.Aunchanged = 1
               /\ ("inside" \in DOMAIN R => R.inside = 1)
               /\ (R.info >= 0 /\ R.info <= R.n => IsPerm(R.permr, R.n) /\ IsPerm(R.permc, R.n))   \* C06: outputs safe to inspect      \* C14: L/U storage inside the caller's workspace
               /\ (R.info = 0 =>
                     /\ R.nsuper = nsuper
                     /\ R.extract = 0
                     /\ R.recon <= 1000                          \* C02 |PrAPc - LU| <= gamma(n)|L||U|
                     /\ R.maxl <= 1000                           \* C02 |l_ij| <= 1/u
                     /\ ("pivsteps" \in DOMAIN R => AllStepsOK(R.pivsteps, R.u1000))   \* C02 pivot policy at every step
                     /\ ("resid" \in DOMAIN R => R.sinfo = 0 /\ R.resid <= 1000)   \* C01
                     /\ ("supno" \in DOMAIN R =>
                           /\ WellFormedLU(R)                    \* C09
                           /\ ("colcnt" \in DOMAIN Cfg =>            \* C05: the predicted column counts dominate the actual L
                                 \* (supernodes that start as relaxed supernodes carry artificial rows by design:
                                 \*  their reserve is the slot, checked by SlotBound)
                                 \A c \in Cols : LET f == R.xsup[R.supno[c]] IN
                                    PType[f] = REGULAR => (R.lsubend[f] - R.lsubbeg[f]) - (c - f) <= Cfg.colcnt[c])
                           /\ \A c \in Cols : R.supno[c] = supno[c]
                           /\ \A s \in 1..nsuper : R.xsup[s] = xsupBeg[s] /\ R.xsupend[s] = xsupEnd[s]))
TResult == Ev("Result") /\ Keepslot /\ mpc = "done" /\ (ResultOK(E) = TRUE) /\ UNCHANGED vars   \* "= TRUE": evaluate as a value, not as an action

TStep == \/ TLoop \/ TExit \/ TSched \/ TNewNsuper \/ TLsubAlloc \/ TSnPivot \/ TSnFact \/ TSnRelease \/ TMark
         \/ TDfsBegin \/ TDfsEnd \/ TWait \/ TClimb \/ TClimbWait \/ TBusyUpdBegin \/ TBusyUpdEnd
         \/ TJoin \/ TPivot \/ TRelease \/ TUAlloc \/ TPruneBegin \/ TPruneEnd \/ TColDone \/ TPanelDone
         \/ TLusupAlloc \/ TDynMap \/ TJoinAll \/ TFixupMove \/ TWrap \/ TResult
TNext == /\ TStep
         /\ tseen' = (IF E.p \in DOMAIN tseen THEN [tseen EXCEPT ![E.p] = tasks'] ELSE tseen)
         /\ LET nd == {c \in Leads : pstate'[c] = DONE /\ pstate[c] # DONE}
            IN rdone' = [p \in Procs |-> IF p = E.p THEN {} ELSE rdone[p] \cup nd]
TSpec == TInit /\ [][TNext]_tvars

\* acceptance: the whole file has been consumed.  The high-water mark of l is kept in a TLC
\* register (updated from a state constraint, -workers 1) and tested in a POSTCONDITION.
Progress == TLCSet(1, IF TLCGet(1) > l THEN TLCGet(1) ELSE l)
Accepted == IF TLCGet(1) > Len(Tr) THEN TRUE
            ELSE /\ PrintT(<<"REJECTED at line", TLCGet(1), Tr[TLCGet(1)]>>) /\ FALSE
\* C05: no supernode outgrows the slot reserved for it in lusup (the code has no check here)
SlotBound == \A c \in 1..TN : (Map[c] >= 0) => slot[c] <= slotEnd[c]
=============================================================================
