--------------------------- MODULE SluRefineTrace ---------------------------
(* one TLC step per recorded ?gsrfs call: the call must be a path of SluRefine (RfsOK) *)
EXTENDS SluRefine, Json, IOUtils
Tr == ndJsonDeserialize(IOEnv.TRACE)
RegInit == TLCSet(1, 0)
VARIABLE l
TInit == RegInit /\ RInit /\ l = 1
TStep == l <= Len(Tr) /\ (RfsOK(Tr[l]) = TRUE) /\ l' = l + 1 /\ UNCHANGED rvars
TSpec == TInit /\ [][TStep]_<<rvars, l>>
Progress == TLCSet(1, IF TLCGet(1) > l THEN TLCGet(1) ELSE l)
Accepted == IF TLCGet(1) > Len(Tr) THEN TRUE
            ELSE /\ PrintT(<<"REJECTED at line", TLCGet(1), Tr[TLCGet(1)]>>) /\ FALSE
=============================================================================
