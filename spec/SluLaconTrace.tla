--------------------------- MODULE SluLaconTrace ---------------------------
EXTENDS SluLacon, Json, IOUtils
Tr == ndJsonDeserialize(IOEnv.TRACE)
RegInit == TLCSet(1, 0)
VARIABLE l
TInit == RegInit /\ Init /\ l = 1
TStep == l <= Len(Tr) /\ (GsconOK(Tr[l]) = TRUE) /\ l' = l + 1 /\ UNCHANGED vars
TSpec == TInit /\ [][TStep]_<<vars, l>>
Progress == TLCSet(1, IF TLCGet(1) > l THEN TLCGet(1) ELSE l)
Accepted == IF TLCGet(1) > Len(Tr) THEN TRUE
            ELSE /\ PrintT(<<"REJECTED at line", TLCGet(1), Tr[TLCGet(1)]>>) /\ FALSE
=============================================================================
