---------------------------- MODULE SluFilesTrace ----------------------------
EXTENDS SluFiles, Json, IOUtils
Tr == ndJsonDeserialize(IOEnv.TRACE)
RegInit == TLCSet(1, 0)
VARIABLE l
TInit == RegInit /\ l = 1
TStep == l <= Len(Tr) /\ (ReaderOK(Tr[l]) = TRUE) /\ l' = l + 1
TSpec == TInit /\ [][TStep]_l
Progress == TLCSet(1, IF TLCGet(1) > l THEN TLCGet(1) ELSE l)
Accepted == IF TLCGet(1) > Len(Tr) THEN TRUE
            ELSE /\ PrintT(<<"REJECTED at line", TLCGet(1), Tr[TLCGet(1)]>>) /\ FALSE
=============================================================================
