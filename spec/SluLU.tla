------------------------------- MODULE SluLU -------------------------------
(***************************************************************************)
(* Well-formedness of the factor data structures returned by p?gstrf:      *)
(* the supernodal L (SCP format), the columnwise U (NCP format) and the    *)
(* two permutations (property C09).  The predicate is evaluated by TLC on  *)
(* records projected from the real output ("specification as oracle") and  *)
(* is the same predicate the pipeline model establishes for its final      *)
(* state.  A record R has fields (1-based unless named *beg/*end, which    *)
(* are 0-based offsets into lsub/usub/values):                             *)
(*   n, permr, permc, nsuper, supno, xsup, xsupend, lsubbeg, lsubend,      *)
(*   lvalbeg, lvalend, lsub, ubeg, uend, usub, nnzL, nnzU                  *)
(***************************************************************************)
EXTENDS Naturals, Integers, Sequences, FiniteSets, TLC

IsPerm(f, n) == /\ Len(f) = n
                /\ \A i \in 1..n : f[i] \in 1..n
                /\ \A i \in 1..n : \A k \in 1..n : i # k => f[i] # f[k]

Slice(q, b, e) == [i \in 1..(e - b) |-> q[b + i]]          \* 0-based half-open [b, e)
Distinct(q) == \A i \in 1..Len(q) : \A k \in 1..Len(q) : i # k => q[i] # q[k]
DisjointExt(b1, e1, b2, e2) == e1 <= b2 \/ e2 <= b1

RECURSIVE SumSeq(_, _)
SumSeq(f, k) == IF k = 0 THEN 0 ELSE f[k] + SumSeq(f, TLCEval(k - 1))

SupernodesOK(R) ==
  LET n == R.n  ns == R.nsuper IN
  /\ ns \in 1..n
  /\ Len(R.supno) = n /\ Len(R.xsup) = ns /\ Len(R.xsupend) = ns
  /\ \A j \in 1..n : R.supno[j] \in 1..ns
  /\ \A s \in 1..ns : /\ R.xsup[s] \in 1..n /\ R.xsupend[s] \in 2..(n + 1) /\ R.xsup[s] < R.xsupend[s]
                      /\ {j \in 1..n : R.supno[j] = s} = R.xsup[s]..(R.xsupend[s] - 1)

LStructOK(R) ==
  LET n == R.n IN
  \A s \in 1..R.nsuper :
     LET f == R.xsup[s]  nc == R.xsupend[s] - f
         b == R.lsubbeg[f]  e == R.lsubend[f]
     IN /\ 0 <= b /\ b <= e /\ e <= Len(R.lsub)
        /\ e - b >= nc
        /\ LET rows == Slice(R.lsub, b, e) IN
           /\ \A k \in 1..nc : rows[k] = f + k - 1              \* own columns, in order
           /\ \A k \in (nc + 1)..Len(rows) : rows[k] > f + nc - 1 /\ rows[k] <= n
           /\ Distinct(rows)
        /\ \A j \in f..(f + nc - 1) : R.lvalend[j] - R.lvalbeg[j] = e - b /\ R.lvalbeg[j] >= 0
        /\ \A t \in 1..R.nsuper : t # s =>
              DisjointExt(b, e, R.lsubbeg[R.xsup[t]], R.lsubend[R.xsup[t]])
LValsDisjoint(R) == \A i \in 1..R.n : \A k \in 1..R.n :
                       i < k => DisjointExt(R.lvalbeg[i], R.lvalend[i], R.lvalbeg[k], R.lvalend[k])

UStructOK(R) ==
  LET n == R.n IN
  /\ \A j \in 1..n :
       LET b == R.ubeg[j]  e == R.uend[j] IN
       /\ 0 <= b /\ b <= e /\ e <= Len(R.usub)
       /\ LET rows == Slice(R.usub, b, e) IN
          /\ \A k \in 1..Len(rows) : rows[k] \in 1..n /\ rows[k] < R.xsup[R.supno[j]]   \* strictly above the supernode
          /\ Distinct(rows)
  /\ \A i \in 1..n : \A k \in 1..n : i < k => DisjointExt(R.ubeg[i], R.uend[i], R.ubeg[k], R.uend[k])

CountsOK(R) ==
  LET n == R.n
      lcnt == [j \in 1..n |-> LET f == R.xsup[R.supno[j]] IN (R.lsubend[f] - R.lsubbeg[f]) - (j - f)]
      ucnt == [j \in 1..n |-> LET f == R.xsup[R.supno[j]] IN (R.uend[j] - R.ubeg[j]) + (j - f + 1)]
  IN /\ R.nnzL = SumSeq(lcnt, n)
     /\ R.nnzU = SumSeq(ucnt, n)

\* visiting supernodes in index order respects the triangular dependency order:
\* a row of L below the diagonal block of supernode s belongs to a column whose
\* supernode has a larger index; a row of U in column j belongs to a smaller one.
SolveOrderOK(R) ==
  /\ \A s \in 1..R.nsuper :
       LET f == R.xsup[s]  nc == R.xsupend[s] - f
           rows == Slice(R.lsub, R.lsubbeg[f], R.lsubend[f])
       IN \A k \in (nc + 1)..Len(rows) : R.supno[rows[k]] > s
  /\ \A j \in 1..R.n :
       LET rows == Slice(R.usub, R.ubeg[j], R.uend[j])
       IN \A k \in 1..Len(rows) : R.supno[rows[k]] < R.supno[j]

WellFormedLU(R) == /\ IsPerm(R.permr, R.n) /\ IsPerm(R.permc, R.n)
                   /\ SupernodesOK(R) /\ LStructOK(R) /\ LValsDisjoint(R)
                   /\ UStructOK(R) /\ CountsOK(R) /\ SolveOrderOK(R)
=============================================================================
