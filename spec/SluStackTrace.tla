---------------------------- MODULE SluStackTrace ----------------------------
(* Trace validation of the Stk* events of a process (all calls, in order) against SluStack: each line is one critical section
   of p?memory.c, logged under the stack lock with the complete state AFTER it: a = <<args..., size, used, top1, top2>>. *)
EXTENDS SluStack, Json, IOUtils
Tr == ndJsonDeserialize(IOEnv.TRACE)
RegInit == TLCSet(1, 0)
VARIABLE l
tvars == <<svars, l>>
E == Tr[l]
Ev(name) == l <= Len(Tr) /\ E.e = name /\ l' = l + 1
\* the logged state after the step is the state the specification computes
After(k) == size' = E.a[k] /\ used' = E.a[k + 1] /\ top1' = E.a[k + 2] /\ top2' = E.a[k + 3]
TSetup  == Ev("StkInit") /\ E.a[1] = 0 /\ Setup(E.a[2]) /\ After(2)
TReuse  == Ev("StkInit") /\ E.a[1] = 1 /\ Reuse(E.a[2]) /\ After(2)
TAlloc  == Ev("StkAlloc") /\ Alloc(E.a[1], E.a[2], E.a[3] = 1) /\ After(4)
TFree   == Ev("StkFree") /\ Free(E.a[1], E.a[2]) /\ After(3)
TUsers  == Ev("StkUsers") /\ Users(E.a[1]) /\ users' = E.a[2] /\ After(3)
TAdjust == Ev("StkAdjust") /\ Adjust(E.a[1], E.a[2]) /\ After(3)
TInit == RegInit /\ SInit /\ l = 1
TNext == TSetup \/ TReuse \/ TAlloc \/ TFree \/ TUsers \/ TAdjust
TSpec == TInit /\ [][TNext]_tvars
Progress == TLCSet(1, IF TLCGet(1) > l THEN TLCGet(1) ELSE l)
Accepted == IF TLCGet(1) > Len(Tr) THEN TRUE
            ELSE /\ PrintT(<<"REJECTED at line", TLCGet(1), Tr[TLCGet(1)]>>) /\ FALSE
=============================================================================
