---------------------------- MODULE SluStackTrace ----------------------------
(* Trace validation of the Stk* events of a process (all calls, in order) against SluStack: each line is one critical section
   of p?memory.c, logged under the stack lock with the complete state AFTER it: a = <<args..., size, used, top1, top2>>. *)
EXTENDS SluStack, Json, IOUtils
Tr == ndJsonDeserialize(IOEnv.TRACE)
RegInit == TLCSet(1, 0)
VARIABLE l, ctx     \* ctx: what the caller asked the factorization in progress for (0 first factorization, 1 re-factorization; -1 before any)
tvars == <<svars, l, ctx>>
E == Tr[l]
Ev(name) == l <= Len(Tr) /\ E.e = name /\ l' = l + 1
\* the logged state after the step is the state the specification computes
After(k) == size' = E.a[k] /\ used' = E.a[k + 1] /\ top1' = E.a[k + 2] /\ top2' = E.a[k + 3]
\* a re-factorization keeps the factors at the head of the workspace: setting the workspace up afresh inside it forgets them (used = 0)
\* and the tail requests of the workers are no longer refused when they reach the factors
TCtx    == Ev("StkCtx") /\ ctx' = E.a[1] /\ UNCHANGED svars
TSetup  == Ev("StkInit") /\ E.a[1] = 0 /\ ctx = 0 /\ Setup(E.a[2]) /\ After(2) /\ UNCHANGED ctx
TReuse  == Ev("StkInit") /\ E.a[1] = 1 /\ ctx = 1 /\ Reuse(E.a[2]) /\ After(2) /\ UNCHANGED ctx
TAlloc  == Ev("StkAlloc") /\ Alloc(E.a[1], E.a[2], E.a[3] = 1) /\ After(4) /\ UNCHANGED ctx
TFree   == Ev("StkFree") /\ Free(E.a[1], E.a[2]) /\ After(3) /\ UNCHANGED ctx
TUsers  == Ev("StkUsers") /\ Users(E.a[1]) /\ users' = E.a[2] /\ After(3) /\ UNCHANGED ctx
TAdjust == Ev("StkAdjust") /\ Adjust(E.a[1], E.a[2]) /\ After(3) /\ UNCHANGED ctx
TInit == RegInit /\ SInit /\ l = 1 /\ ctx = 0 - 1
TNext == TCtx \/ TSetup \/ TReuse \/ TAlloc \/ TFree \/ TUsers \/ TAdjust
TSpec == TInit /\ [][TNext]_tvars
Progress == TLCSet(1, IF TLCGet(1) > l THEN TLCGet(1) ELSE l)
Accepted == IF TLCGet(1) > Len(Tr) THEN TRUE
            ELSE /\ PrintT(<<"REJECTED at line", TLCGet(1), Tr[TLCGet(1)]>>) /\ FALSE
=============================================================================
