------------------------------- MODULE SluArgs -------------------------------
(***************************************************************************)
(* Property C15: every call whose arguments violate a documented           *)
(* precondition reports info = -i for the documented position i of the     *)
(* FIRST offender through the error handler, and has no side effects.      *)
(* Pos is a literal transcription of the "-i = the i-th argument had an    *)
(* illegal value" tables in the routine headers of /repo/SRC (one entry    *)
(* per way of violating an argument).  TLC enumerates every single         *)
(* violation and every pair (Cases) for the harness to execute, and        *)
(* evaluates ArgOK on every record the harness writes back.                *)
(***************************************************************************)
EXTENDS Naturals, Integers, Sequences, FiniteSets, TLC

Pos == [
  gssv  |-> [nprocs |-> 1, Ashape |-> 2, Atype |-> 2, Adtype |-> 2, Bncol |-> 7, Bldb |-> 7],
  gssvx |-> [nprocs |-> 1, fact |-> 2, trans |-> 2, refact |-> 2, usepr |-> 2, lwork |-> 2, Ashape |-> 3, Atype |-> 3,
             equed |-> 6, Rneg |-> 7, Cneg |-> 8, Bldb |-> 11, Btype |-> 11, Xldx |-> 12, Xncol |-> 12, Xtype |-> 12],
  gstrs |-> [trans |-> 1, Lshape |-> 2, Ushape |-> 3, Bldb |-> 6],
  gsrfs |-> [trans |-> 1, Ashape |-> 2, Atype |-> 2, Lshape |-> 3, Ltype |-> 3, Ushape |-> 4, Utype |-> 4,
             Bldb |-> 10, Btype |-> 10, Xldx |-> 11, Xtype |-> 11],
  gscon |-> [norm |-> 1, Lshape |-> 2, Ltype |-> 2, Ushape |-> 3, Utype |-> 3],
  gsequ |-> [Aneg |-> 1, Atype |-> 1],
  trsv  |-> [uplo |-> 1, trans |-> 2, diag |-> 3, Lshape |-> 4, Ushape |-> 5],
  gemv  |-> [trans |-> 1, Aneg |-> 3, incx |-> 5, incy |-> 8] ]
Routines == DOMAIN Pos
Conds(r) == DOMAIN Pos[r]
MinOf(S) == CHOOSE m \in S : \A x \in S : m <= x
Expected(r, V) == MinOf({Pos[r][c] : c \in V})
\* an illegal equed value makes the R / C tests meaningless (they are only made for a legal flag)
Compatible(r, V) == ~(r = "gssvx" /\ "equed" \in V /\ (V \cap {"Rneg", "Cneg"}) # {})
BaseCases == UNION { { <<r, V>> : V \in {S \in SUBSET Conds(r) : Cardinality(S) \in {1, 2} /\ Compatible(r, S)} } : r \in Routines }
\* legal special values of the OTHER arguments must not change the outcome: the same violations with zero right-hand
\* sides (B, X with no columns), where a routine may be tempted to return before it has tested its arguments
\* ... and the R / C violations again in the context equed = BOTH, where both tests are made and only one of the arrays is bad
CtxFlags == {"nrhs0", "eqboth"}
HasRhs == {"gssv", "gssvx", "gstrs", "gsrfs"}
Cases == BaseCases \cup { <<c[1], c[2] \cup {"nrhs0"}>> : c \in {b \in BaseCases : b[1] \in HasRhs /\ "Bncol" \notin b[2] /\ "Xncol" \notin b[2]} }
                   \cup { <<c[1], c[2] \cup {"eqboth"}>> : c \in {b \in BaseCases : b[1] = "gssvx" /\ "equed" \notin b[2] /\ (b[2] \cap {"Rneg", "Cneg"}) # {}} }

SeqSet(q) == {q[i] : i \in 1..Len(q)}
ArgOK(rec) ==
  LET r == rec.routine  V == SeqSet(rec.viol) \ CtxFlags  e == Expected(r, V) IN
  /\ V \subseteq Conds(r) /\ V # {}
  /\ (r # "gemv" => rec.info = 0 - e)           \* info = -i for the first offender
  /\ rec.xcount = 1 /\ rec.xpos = e              \* reported once through the error handler
  /\ rec.unch = 1                                \* A, B, X, L, U, permutations, scale factors untouched
  /\ rec.live1 = rec.live0                       \* no memory retained
=============================================================================
