---------------------------- MODULE SluApiTrace ----------------------------
(***************************************************************************)
(* Validation of an executed call history against SluApi: the "Call"       *)
(* records written by harness/drv_api.c (one per library call, in order)   *)
(* must be a behaviour of SluApi in which every record satisfies the       *)
(* obligation Obs*(record) of its action in the state where it is taken.   *)
(***************************************************************************)
EXTENDS SluApi, Json, IOUtils

Tr == ndJsonDeserialize(IOEnv.TRACE)
RegInit == TLCSet(1, 0)
VARIABLE l
tvars == <<vars, l>>
R == Tr[l]
Is(c) == l <= Len(Tr) /\ R.call = c /\ l' = l + 1

LwOf(r) == IF r.lwmode = 0 THEN "sys" ELSE IF r.lwmode = 1 THEN "user" ELSE "query"
CallOf(r) == [fact |-> r.fact, refact |-> (r.refact = 1), usepr |-> (r.usepr = 1), trans |-> r.trans, lw |-> LwOf(r)]

TInit == RegInit /\ Init /\ l = 1
TMat == Is("mat") /\ Mat(IF R.stype = 1 THEN "NR" ELSE "NC", R.sing = 1) /\ base' = R.live
TVals == Is("vals") /\ Vals /\ R.ver = mat.ver + 1
TPermc == Is("permc") /\ (R.isperm = 1) /\ UNCHANGED vars            \* C10: every ordering is a bijection
TGssv == Is("gssv") /\ Gssv /\ (ObsGssv(R, R.n) = TRUE) /\ R.ver = mat.ver
TGssvx == Is("gssvx") /\ LET c == CallOf(R) IN
            /\ Gssvx(c.fact, c.refact, c.usepr, c.trans, c.lw)
            /\ (ObsGssvx(R, R.n, c) = TRUE)
            /\ R.ver = mat.ver
            /\ (c.lw # "query" /\ c.fact # "FACTORED" => mat'.eq = R.equed)
TDestroy == Is("destroy") /\ Destroy /\ (ObsDestroy(R) = TRUE)
TSInit == Is("sinit") /\ SInit(R.refact = 1, R.usepr = 1, IF R.lwmode = 1 THEN "user" ELSE "sys") /\ (ObsSInit(R, R.refact = 1) = TRUE) /\ R.ver = mat.ver
TSFactor == Is("sfactor") /\ SFactor /\ (ObsSFactor(R, R.n) = TRUE) /\ R.ver = mat.ver
                /\ R.refact = (IF ses.refact THEN 1 ELSE 0) /\ R.usepr = (IF ses.usepr THEN 1 ELSE 0)
TSSolve == Is("ssolve") /\ SSolve(R.trans) /\ (ObsSSolve(R) = TRUE) /\ R.factver = lu.ver
TSCon == Is("scon") /\ SCon(R.norm) /\ (ObsSCon(R) = TRUE)
TSDrop == Is("sdropac") /\ SDropAC /\ (ObsSDrop(R) = TRUE)
TSFinal == Is("sfinal") /\ SFinal /\ (ObsSFinal(R) = TRUE)
TNext == TMat \/ TVals \/ TPermc \/ TGssv \/ TGssvx \/ TDestroy \/ TSInit \/ TSFactor \/ TSSolve \/ TSCon \/ TSDrop \/ TSFinal
TSpec == TInit /\ [][TNext]_tvars

Progress == TLCSet(1, IF TLCGet(1) > l THEN TLCGet(1) ELSE l)
Accepted == IF TLCGet(1) > Len(Tr) THEN TRUE
            ELSE /\ PrintT(<<"REJECTED at line", TLCGet(1), Tr[TLCGet(1)]>>) /\ FALSE
=============================================================================
