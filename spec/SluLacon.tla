------------------------------- MODULE SluLacon -------------------------------
(***************************************************************************)
(* The reverse-communication 1-norm estimator ?lacon (Higham's CONEST) and *)
(* its use by ?gscon (properties C12, C13, C18).  The estimator is the     *)
(* state machine it is: jump in 1..5, iter <= 5; data-dependent tests      *)
(* (sign vector unchanged, estimate not increased, index repeated) are     *)
(* nondeterministic.  Checked by TLC on the model: it terminates within    *)
(* 12 calls, the kase values it hands out follow 1,2,(1,2)*,1,0, and every *)
(* static variable is written before it is read on every path from         *)
(* kase = 0 (no carry-over between estimates).                             *)
(* Binding: the calls of a real ?gscon (kase in / kase out of every ?lacon *)
(* call, and the triangular solves performed in between) are recorded      *)
(* through --wrap and must be a path of this machine (Accepts); the caller *)
(* must apply inv(L),inv(U) when kase = kase1(norm) and inv(U'),inv(L')    *)
(* otherwise (SolvesOK).                                                   *)
(***************************************************************************)
EXTENDS Naturals, Integers, Sequences, FiniteSets, TLC
CONSTANT NGt1            \* TRUE: n > 1 (the n = 1 case returns after the first product)

VARIABLES jump, iter, kase, calls, defd     \* defd: statics written since the estimate started
vars == <<jump, iter, kase, calls, defd>>
Statics == {"jump", "iter", "j", "jlast", "altsgn", "estold"}
Init == jump = 0 /\ iter = 0 /\ kase = 0 /\ calls = 0 /\ defd = {}

Reads(S) == S \subseteq defd          \* an undefined static must not be read
Call0 == /\ kase = 0 /\ calls = 0
         /\ kase' = 1 /\ jump' = 1 /\ calls' = 1 /\ defd' = {"jump"} /\ UNCHANGED iter
J1 == /\ kase = 1 /\ jump = 1 /\ Reads({"jump"})
      /\ IF NGt1 THEN kase' = 2 /\ jump' = 2 /\ defd' = defd ELSE kase' = 0 /\ jump' = 9 /\ defd' = defd
      /\ calls' = calls + 1 /\ UNCHANGED iter
J2 == /\ kase = 2 /\ jump = 2 /\ Reads({"jump"})
      /\ iter' = 2 /\ kase' = 1 /\ jump' = 3 /\ defd' = defd \cup {"j", "iter"} /\ calls' = calls + 1
J3 == /\ kase = 1 /\ jump = 3 /\ Reads({"jump"})
      /\ \/ kase' = 2 /\ jump' = 4 /\ defd' = defd \cup {"estold"}          \* estimate increased: transpose product next
         \/ kase' = 1 /\ jump' = 5 /\ defd' = defd \cup {"estold", "altsgn"}  \* converged: alternating-sign vector
      /\ calls' = calls + 1 /\ UNCHANGED iter
J4 == /\ kase = 2 /\ jump = 4 /\ Reads({"jump", "j", "iter"})
      /\ \/ iter < 5 /\ iter' = iter + 1 /\ kase' = 1 /\ jump' = 3 /\ defd' = defd \cup {"jlast"}
         \/ kase' = 1 /\ jump' = 5 /\ defd' = defd \cup {"jlast", "altsgn"} /\ UNCHANGED iter
      /\ calls' = calls + 1
J5 == /\ kase = 1 /\ jump = 5 /\ Reads({"jump"})
      /\ kase' = 0 /\ jump' = 9 /\ calls' = calls + 1 /\ UNCHANGED <<iter, defd>>
Done == jump = 9 /\ UNCHANGED vars
Next == Call0 \/ J1 \/ J2 \/ J3 \/ J4 \/ J5 \/ Done
Spec == Init /\ [][Next]_vars /\ WF_vars(Next)
Bounded == calls <= 12 /\ iter <= 5
KaseOK == kase \in {0, 1, 2}
Terminates == <>(jump = 9)

(* acceptance of a recorded call sequence: seq[k] = <<kase in, kase out>> or <<kase in, kase out, nq>> *)
\* machine states as pairs <<name, iter>>
\* nq: the logged outcome of the test x[jlast] # max|x| at an entry with JUMP = 4 (1 / 0; -1 = not logged): with it the branch is
\* DETERMINED -- go on iff nq = 1 and fewer than 5 iterations were made in THIS estimate (iter restarts at 2 in every estimate)
StepSet(s, kin, kout, ngt1, nq) ==
   LET nm == s[1]  it == s[2] IN
   IF nm = "start" THEN (IF kin = 0 /\ kout = 1 THEN {<<"j1", 0>>} ELSE {})
   ELSE IF nm = "j1" THEN (IF ngt1 THEN (IF kin = 1 /\ kout = 2 THEN {<<"j2", 0>>} ELSE {}) ELSE (IF kin = 1 /\ kout = 0 THEN {<<"done", 0>>} ELSE {}))
   ELSE IF nm = "j2" THEN (IF kin = 2 /\ kout = 1 THEN {<<"j3", 2>>} ELSE {})
   ELSE IF nm = "j5" THEN (IF kin = 1 /\ kout = 0 THEN {<<"done", 0>>} ELSE {})
   ELSE IF nm = "done" THEN {}
   ELSE IF nm = "j3" THEN (IF kin = 1 /\ kout = 2 THEN {<<"j4", it>>} ELSE IF kin = 1 /\ kout = 1 THEN {<<"j5", 0>>} ELSE {})
   ELSE (IF kin = 2 /\ kout = 1
         THEN (IF nq = 1 THEN (IF it < 5 THEN {<<"j3", it + 1>>} ELSE {<<"j5", 0>>})
               ELSE IF nq = 0 THEN {<<"j5", 0>>}
               ELSE {<<"j5", 0>>} \cup (IF it < 5 THEN {<<"j3", it + 1>>} ELSE {}))
         ELSE {})
RECURSIVE RunSet(_, _, _, _)
RunSet(S, seq, k, ngt1) == IF k > Len(seq) THEN S
                           ELSE RunSet(TLCEval(UNION {StepSet(s, seq[k][1], seq[k][2], ngt1, IF Len(seq[k]) >= 3 THEN seq[k][3] ELSE -1) : s \in S}), seq, TLCEval(k + 1), ngt1)
Accepts(seq, n) == Len(seq) <= 12 /\ <<"done", 0>> \in RunSet({<<"start", 0>>}, seq, 1, n > 1)
\* the solves between two ?lacon calls: solves[k] is the list of <<uplo, trans>> after call k (1 = L, 2 = U; 0 = N, 1 = T, 2 = C)
SolvesOK(seq, solves, norm) ==
   LET kase1 == IF norm = 1 THEN 1 ELSE 2 IN
   \A k \in 1..Len(seq) :
      IF seq[k][2] = 0 THEN solves[k] = <<>>
      ELSE IF seq[k][2] = kase1 THEN solves[k] = <<<<1, 0>>, <<2, 0>>>>            \* inv(L) then inv(U)
      ELSE Len(solves[k]) = 2 /\ solves[k][1][1] = 2 /\ solves[k][2][1] = 1      \* inv(U') then inv(L')
                              /\ solves[k][1][2] \in {1, 2} /\ solves[k][2][2] = solves[k][1][2]
GsconOK(r) == Accepts(r.seq, r.n) /\ SolvesOK(r.seq, r.solves, r.norm)
=============================================================================
