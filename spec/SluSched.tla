------------------------------ MODULE SluSched ------------------------------
(***************************************************************************)
(* Behaviours of the scheduling layer of p?gstrf for REPLAY into the real   *)
(* code (DESIGN.md 4.4): the loop test, pxgstrf_scheduler, and             *)
(* pxgstrf_mark_busy_descends are the actions of SluPipe, unchanged; the   *)
(* numerical life of a panel between "taken" and "finished" is one step    *)
(* (Work) that numbers the panel's supernodes, releases its columns and    *)
(* makes the STATE = DONE store.  The harness (drv_sched.c) executes every *)
(* printed behaviour on the real ParallelInit / pxgstrf_scheduler /        *)
(* pxgstrf_mark_busy_descends, single-threaded in exactly the order of the *)
(* behaviour, and compares the complete scheduler state after every step.  *)
(* So every interleaving of critical sections that TLC enumerates for a    *)
(* forest is an execution of the real functions, which thread timing can   *)
(* only sample.                                                            *)
(*                                                                         *)
(*                                                                         *)
(* Test generation: hist is hidden from TLC's fingerprint by a VIEW, so    *)
(* the state graph stays the (small) graph of scheduler states, and an     *)
(* ACTION_CONSTRAINT prints, for EVERY transition s -> s' that TLC         *)
(* generates, the path hist(s) \o <<step>> together with the complete       *)
(* scheduler state of s': one implementation test per transition of the    *)
(* model (the outputs of every call on the path are compared as well).     *)
(*                                                                         *)
(* A step is logged as a flat tuple of integers (columns 1-based, EMPTY=0):*)
(*   <<1, p, tasks>>                              loop test saw tasks > 0   *)
(*   <<2, p, cur, new, bcol, tasks, qcount>>      scheduler section         *)
(*   <<3, p, jcol, bcol, |lbusy|>>                mark busy                 *)
(*   <<4, p, jcol, nsuper>> \o supno, xsup of the panel's columns  work+DONE*)
(*   <<5, p, tasks>>                              loop test saw tasks <= 0  *)
(***************************************************************************)
EXTENDS SluPipe

CONSTANTS JoinRule,     \* "max": a column joins the previous column's supernode whenever the code could; "none": never
          MaxIdle       \* bound on scheduler sections that return EMPTY (they can repeat for ever)

VARIABLES hist, idle
svars == <<vars, hist, idle>>

LeadSeq == [k \in 1..Len(PST) |-> PST[k][1]]
StVec == [k \in 1..Len(PST) |-> pstate'[LeadSeq[k]]] \o [k \in 1..Len(PST) |-> ukids'[LeadSeq[k]]] \o <<ukids'[ROOT]>>
         \o [k \in 1..Len(PST) |-> fb'[LeadSeq[k]]] \o [c \in 1..N |-> spin'[c]]

SLoop(p) == /\ Loop(p) /\ UNCHANGED idle
            /\ hist' = Append(hist, <<1, p, tasks>>)
SSched(p) == /\ Sched(p)
             /\ idle' = IF jcol'[p] = EMPTY THEN idle + 1 ELSE idle
             /\ hist' = Append(hist, <<2, p, jcol[p], jcol'[p], IF jcol'[p] = EMPTY THEN 0 ELSE bcol'[p], tasks', Len(queue') - qhead' + 1>>)
SMark(p) == /\ MarkBusy(p) /\ UNCHANGED idle
            /\ hist' = Append(hist, <<3, p, jcol[p], bcol'[p], Cardinality(lbusy'[p])>>)

\* supernode numbering of one panel, column by column
JoinOK(c, st) == /\ JoinRule = "max" /\ c > 1 /\ c \notin Sbnd /\ Par[c - 1] = c /\ st.sn[c - 1] # 0
                 /\ c - st.xb[st.sn[c - 1]] < MaxSuper
RECURSIVE Number(_, _, _)
Number(c, hi, st) ==
   IF c > hi THEN st
   ELSE LET j  == JoinOK(c, st)
            s  == IF j THEN st.sn[c - 1] ELSE st.ns + 1
        IN Number(TLCEval(c + 1), hi, TLCEval([sn |-> [st.sn EXCEPT ![c] = s],
                                               xb |-> IF j THEN st.xb ELSE [st.xb EXCEPT ![s] = c],
                                               xe |-> [st.xe EXCEPT ![s] = c + 1],
                                               ns |-> IF j THEN st.ns ELSE st.ns + 1]))
\* a regular panel cannot finish before the busy descendants it waits for in the pipeline have finished
Work(p) ==
  /\ pc[p] \in {"snew", "dfs"}
  /\ (pc[p] = "dfs" => \A c \in lbusy[p] : final[c])
  /\ LET l  == jcol[p]
         hi == l + PSize[l] - 1
         st0 == [sn |-> supno, xb |-> xsupBeg, xe |-> xsupEnd, ns |-> nsuper]
         st == IF PType[l] = RELAXED
               THEN [sn |-> [c \in Cols |-> IF c \in PCols(l) THEN nsuper + 1 ELSE supno[c]],
                     xb |-> [xsupBeg EXCEPT ![nsuper + 1] = l], xe |-> [xsupEnd EXCEPT ![nsuper + 1] = hi + 1], ns |-> nsuper + 1]
               ELSE Number(l, hi, st0)
     IN /\ supno' = st.sn /\ xsupBeg' = st.xb /\ xsupEnd' = st.xe /\ nsuper' = st.ns
        /\ final' = [c \in Cols |-> final[c] \/ c \in PCols(l)]
        /\ pivcnt' = [c \in Cols |-> IF c \in PCols(l) THEN pivcnt[c] + 1 ELSE pivcnt[c]]
        /\ spin' = [c \in Cols |-> IF c \in PCols(l) THEN 0 ELSE spin[c]]
        /\ pstate' = [pstate EXCEPT ![l] = DONE]
        /\ pc' = [pc EXCEPT ![p] = "loop"]
        /\ hist' = Append(hist, <<4, p, l, st.ns>> \o [k \in 1..PSize[l] |-> st.sn[l + k - 1]] \o [k \in 1..PSize[l] |-> st.xb[st.sn[l + k - 1]]])
  /\ UNCHANGED <<ukids, fb, queue, qhead, tasks, dpend, lsubOff, lsubLen, nextl, nextu, ispruned, loc, zset, mast, idle>>
SExit(p) == /\ Exit(p) /\ UNCHANGED idle
            /\ hist' = Append(hist, <<5, p, tasks>>)

SInit == Init /\ hist = <<>> /\ idle = 0
SNext == \E p \in Procs : SLoop(p) \/ SSched(p) \/ SMark(p) \/ Work(p) \/ SExit(p)
SSpec == SInit /\ [][SNext]_svars
SFair == SSpec /\ WF_svars(SNext)

AllOut == \A p \in Procs : pc[p] = "exit"
\* hist is not part of the fingerprint
SView == <<vars, idle>>
\* one line per generated transition: the path to it and the complete scheduling state after it
\* (pstate/ukids/fb over the panel leads, ukids of the root, spin, and per worker jcol, bcol, lbusy)
EmitEdge == PrintT(<<"EDGE", hist', StVec,
                     [p \in Procs |-> <<jcol'[p], bcol'[p]>> \o [c \in 1..N |-> IF c \in lbusy'[p] THEN 1 ELSE 0]]>>)
\* simulation mode: one line per complete behaviour
Emit == IF AllOut THEN PrintT(<<"BEH", hist>>) ELSE TRUE
IdleBound == idle <= MaxIdle
\* the static part the harness compares after ParallelInit
EmitInit == PrintT(<<"PST", PST, [k \in 1..Len(RLT) |-> RLT[k][1]], Len(PST)>>)

(* properties of the scheduling layer alone (the same ones SluPipe checks with the full worker) *)
SOncePerPanel == \A c \in Cols : pivcnt[c] <= 1
SDone == AllOut => /\ tasks = 0 /\ \A l \in Leads : pstate[l] = DONE /\ \A c \in Cols : pivcnt[c] = 1 /\ spin[c] = 0
STasksExact == tasks = Cardinality({l \in Leads : pstate[l] > BUSY})
SBusyIsOwned == \A l \in Leads : pstate[l] = BUSY <=> \E p \in Procs : jcol[p] = l /\ pc[p] \in {"snew", "mark", "dfs"}
\* what mark_busy_descends relies on: the column before a busy regular panel is numbered
SMarkReadsNumbered == \A p \in Procs : (pc[p] = "mark" /\ bcol[p] < jcol[p] /\ PType[bcol[p]] # RELAXED) => supno[bcol[p] - 1] # 0
\* the busy list covers every descendant that is not final
SLbusyCovers == \A p \in Procs : pc[p] = "dfs" => \A d \in PDescT[jcol[p]] : (~final[d]) => d \in lbusy[p]
STermination == <>AllOut
=============================================================================
