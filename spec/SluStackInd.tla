---------------------------- MODULE SluStackInd ----------------------------
(* Unbounded safety of the workspace stack object (SluStack.tla) with Apalache: StackInv is an inductive invariant of the
   object for ALL sizes and request lengths (TLC only sees the values that recorded executions use).
   Same actions as SluStack, with the parameters existentially quantified over Int and @type annotations.
   check 1:  apalache-mc check --init=SInit --inv=StackInv --length=0 SluStackInd.tla
   check 2:  apalache-mc check --init=IndInit --next=Next --inv=StackInv --length=1 SluStackInd.tla        *)
EXTENDS Integers

VARIABLES
  \* @type: Int;
  size,
  \* @type: Int;
  used,
  \* @type: Int;
  top1,
  \* @type: Int;
  top2,
  \* @type: Int;
  users,
  \* @type: Bool;
  live

StackInv == /\ users >= 0 /\ size >= 0
            /\ (live => /\ 0 <= top1 /\ top1 <= top2 /\ top2 <= size
                        /\ used = top1 + (size - top2))
Full(x) == x + used >= size

IndInit == /\ size \in Int /\ used \in Int /\ top1 \in Int /\ top2 \in Int /\ users \in Int /\ live \in BOOLEAN /\ StackInv
SInit == size = 0 /\ used = 0 /\ top1 = 0 /\ top2 = 0 /\ users = 0 /\ live = FALSE
Setup(sz) == /\ sz > 0 /\ size' = sz /\ used' = 0 /\ top1' = 0 /\ top2' = sz /\ users' = 0 /\ live' = TRUE
Reuse(sz) == /\ live /\ sz > 0 /\ sz >= top1 /\ size' = sz /\ top2' = sz /\ users' = 0
             /\ UNCHANGED <<top1, live>> /\ used' = top1
Alloc(end, b, ok) ==
   /\ live /\ b >= 0
   /\ ok = ~Full(b)
   /\ IF ~ok THEN UNCHANGED <<size, used, top1, top2, users, live>>
      ELSE /\ used' = used + b /\ UNCHANGED <<size, users, live>>
           /\ IF end = 0 THEN top1' = top1 + b /\ UNCHANGED top2
              ELSE /\ users >= 1 /\ top2' = top2 - b /\ UNCHANGED top1
Free(end, b) ==
   /\ live /\ b >= 0 /\ used' = used - b /\ UNCHANGED <<size, users, live>>
   /\ IF end = 0 THEN top1' = top1 - b /\ top1' >= 0 /\ UNCHANGED top2
      ELSE top2' = top2 + b /\ top2' <= size /\ UNCHANGED top1
Users(incr) ==
   /\ live /\ incr \in {1, -1}
   /\ IF users + incr <= 0
      THEN /\ users' = 0 /\ top2' = size /\ used' = used - (size - top2)
      ELSE /\ users' = users + incr /\ UNCHANGED <<top2, used>>
   /\ UNCHANGED <<size, top1, live>>
\* alignment padding is taken without a test in the code; it is safe exactly when it fits (d > 0) resp. was taken before (d < 0)
Adjust(end, d) ==
   /\ live /\ (d >= 0 => ~Full(d)) /\ used' = used + d /\ UNCHANGED <<size, users, live>>
   /\ IF end = 0 THEN top1' = top1 + d /\ top1' >= 0 /\ UNCHANGED top2 ELSE top2' = top2 - d /\ top2' <= size /\ UNCHANGED top1
Next == \E x \in Int : \E e \in {0, 1} : \E k \in BOOLEAN :
          Setup(x) \/ Reuse(x) \/ Alloc(e, x, k) \/ Free(e, x) \/ Users(x) \/ Adjust(e, x)
=============================================================================
