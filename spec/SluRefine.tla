------------------------------- MODULE SluRefine -------------------------------
(***************************************************************************)
(* Iterative refinement and error bounds, ?gsrfs (property C13; the part   *)
(* of C07 that concerns which operator is refined): the routine as the     *)
(* state machine it is.  For each right-hand side                          *)
(*                                                                         *)
(*   resid:  r = b - op(A) x      (sp_?gemv with op)        at most ITMAX+1 *)
(*   decide: berr = max_i |r_i| / (|op(A)||x| + |b|)_i ; continue iff      *)
(*           berr > eps, berr halved since the last step, count < ITMAX    *)
(*   refine: solve op(A) d = r    (?gstrs with op), x += d  at most ITMAX   *)
(*   ferr:   ?lacon estimates || inv(op(A)) diag(w) ||: kase = 1 asks for  *)
(*           the product with the TRANSPOSED operator (?gstrs with op^T),  *)
(*           kase = 2 for the operator itself (?gstrs with op), kase = 0   *)
(*           ends the column; the kase sequence is a path of SluLacon      *)
(*                                                                         *)
(* What is data dependent (does the backward error still halve, what the   *)
(* estimator returns) is nondeterministic.  TLC checks on the model that   *)
(* every column ends (Terminates), after at most ITMAX corrections and 12  *)
(* estimator calls (Bounded), and that no step of one column is taken in   *)
(* the state of another (ColumnsIndependent: all counters restart).        *)
(* Binding: the calls a real ?gsrfs makes -- sp_?gemv, ?gstrs (with their  *)
(* transpose argument) and ?lacon (kase in / out) -- are recorded through  *)
(* --wrap and must be a path of this machine (RfsOK).                      *)
(*                                                                         *)
(* Deviation of the code that the specification states instead of hiding:  *)
(* for the complex precisions the code passes 'T' / TRANS where LAPACK's   *)
(* ?gerfs passes 'C' (residual for op = CONJ, estimator products): OpOfRes *)
(* and Transposed describe the code for real data; complex CONJ is the     *)
(* known finding F16.                                                      *)
(***************************************************************************)
EXTENDS SluLacon

CONSTANTS ITMAX, NRhs, Op          \* Op in {0, 1, 2} = NOTRANS, TRANS, CONJ (as logged)

OpOfRes(op)    == IF op = 0 THEN 0 ELSE 1        \* sp_?gemv 'N' / 'T'
Transposed(op) == IF op = 0 THEN 1 ELSE 0        \* the estimator's kase = 1 product
SameOp(op, t)  == IF op = 0 THEN t = 0 ELSE t \in {1, 2}     \* TRANS and CONJ coincide for real data

VARIABLES col, ph, nres, nref, lseq, want
rvars == <<col, ph, nres, nref, lseq, want, vars>>      \* vars: the variables of SluLacon, unused here (its operators are)
RInit == Init /\ col = 1 /\ ph = (IF NRhs = 0 THEN "end" ELSE "resid") /\ nres = 0 /\ nref = 0 /\ lseq = <<>> /\ want = 9

Resid  == /\ ph = "resid" /\ ph' = "decide" /\ nres' = nres + 1 /\ UNCHANGED <<col, nref, lseq, want>>
Refine == /\ ph = "decide" /\ nref < ITMAX
          /\ ph' = "resid" /\ nref' = nref + 1 /\ UNCHANGED <<col, nres, lseq, want>>
\* the estimator: kin must be what it handed out last (0 at the start of a column); only continuations that are
\* prefixes of a path of SluLacon are possible
Viable(q) == RunSet({<<"start", 0>>}, q, 1, TRUE) # {}
LaconCall(kout) ==
          /\ ph \in {"decide", "ferr"}
          /\ (ph = "decide" => lseq = <<>>)
          /\ LET kin == IF lseq = <<>> THEN 0 ELSE lseq[Len(lseq)][2]
                 nl  == Append(lseq, <<kin, kout>>)
             IN /\ Len(nl) <= 12 /\ Viable(nl)
                /\ IF kout = 0
                   THEN /\ Accepts(nl, 2)                      \* a complete path of the estimator (n > 1)
                        /\ lseq' = <<>> /\ nres' = 0 /\ nref' = 0 /\ want' = 9
                        /\ IF col < NRhs THEN col' = col + 1 /\ ph' = "resid" ELSE col' = col /\ ph' = "end"
                   ELSE /\ lseq' = nl /\ ph' = "solve" /\ want' = (IF kout = 1 THEN Transposed(Op) ELSE Op)
                        /\ UNCHANGED <<col, nres, nref>>
Solve  == /\ ph = "solve" /\ ph' = "ferr" /\ UNCHANGED <<col, nres, nref, lseq, want>>
RNext  == /\ UNCHANGED vars
          /\ (Resid \/ Refine \/ (\E k \in {0, 1, 2} : LaconCall(k)) \/ Solve \/ (ph = "end" /\ UNCHANGED <<col, ph, nres, nref, lseq, want>>))
RSpec  == RInit /\ [][RNext]_rvars /\ WF_rvars(RNext)

RBounded   == nres <= ITMAX + 1 /\ nref <= ITMAX /\ Len(lseq) <= 12 /\ col <= (IF NRhs = 0 THEN 1 ELSE NRhs)
RTypeOK    == ph \in {"resid", "decide", "solve", "ferr", "end"} /\ want \in {0, 1, 2, 9}
RTerminates == <>(ph = "end")

(* ---- acceptance of the recorded calls of one real ?gsrfs ----
   r.op, r.nrhs, r.n, r.ev: sequence of <<code, a, b>>: 1 = sp_?gemv(trans a), 2 = ?gstrs(trans a), 3 = ?lacon(kase in a, out b).
   Machine state while scanning: <<phase, column, residuals, refinements, wanted op of the next solve, index of the column's first
   estimator call in ev or 0>>, phases 1 = resid, 2 = decide, 3 = solve, 4 = ferr, 5 = end. *)
OnlyLacon(ev, from, to) == SelectSeq(SubSeq(ev, from, to), LAMBDA e : e[1] = 3)
LSeq(ev, from, to) == LET s == OnlyLacon(ev, from, to) IN [k \in 1..Len(s) |-> <<s[k][2], s[k][3], IF Len(s[k]) >= 4 THEN s[k][4] ELSE -1>>]
RStep(s, e, k, r) ==
   LET ph0 == s[1]  c == s[2]  nr == s[3]  nf == s[4]  w == s[5]  l0 == s[6] IN
   IF ph0 = 1 THEN (IF e[1] = 1 /\ e[2] = OpOfRes(r.op) /\ nr <= ITMAX THEN <<2, c, nr + 1, nf, 9, 0>> ELSE <<0, 0, 0, 0, 0, 0>>)
   ELSE IF ph0 = 2 /\ e[1] = 2 THEN (IF SameOp(r.op, e[2]) /\ nf < ITMAX THEN <<1, c, nr, nf + 1, 9, 0>> ELSE <<0, 0, 0, 0, 0, 0>>)
   ELSE IF ph0 \in {2, 4} /\ e[1] = 3 THEN
        LET first == IF ph0 = 2 THEN k ELSE l0
            kinOK == IF ph0 = 2 THEN e[2] = 0 ELSE TRUE
        IN IF ~kinOK THEN <<0, 0, 0, 0, 0, 0>>
           ELSE IF e[3] = 0
                THEN (IF Accepts(LSeq(r.ev, first, k), r.n)
                      THEN (IF c < r.nrhs THEN <<1, c + 1, 0, 0, 9, 0>> ELSE <<5, c, 0, 0, 9, 0>>)
                      ELSE <<0, 0, 0, 0, 0, 0>>)
                ELSE <<3, c, nr, nf, IF e[3] = 1 THEN Transposed(r.op) ELSE r.op, first>>
   ELSE IF ph0 = 3 /\ e[1] = 2 THEN (IF (IF w = 0 THEN e[2] = 0 ELSE e[2] \in {1, 2}) THEN <<4, c, nr, nf, 9, l0>> ELSE <<0, 0, 0, 0, 0, 0>>)
   ELSE <<0, 0, 0, 0, 0, 0>>
RECURSIVE RScan(_, _, _)
RScan(s, k, r) == IF s[1] = 0 \/ k > Len(r.ev) THEN s ELSE RScan(TLCEval(RStep(s, r.ev[k], k, r)), TLCEval(k + 1), r)
RfsOK(r) == LET fin == RScan(IF r.nrhs = 0 THEN <<5, 1, 0, 0, 9, 0>> ELSE <<1, 1, 0, 0, 9, 0>>, 1, r)
            IN fin[1] = 5
=============================================================================
