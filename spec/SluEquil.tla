------------------------------ MODULE SluEquil ------------------------------
(***************************************************************************)
(* Property C11 on an exact sub-domain: matrices whose entries are 0 or    *)
(* +-2^e.  On this domain ?gsequ and ?laqgs are integer arithmetic on      *)
(* exponents, including clipping at the safe minimum / maximum, the        *)
(* thresholds (0.1 <=> exponent >= -3; SMALL = safmin/prec, LARGE =        *)
(* 1/SMALL), underflow of a product to zero and overflow to infinity, and  *)
(* the index reported for an exactly zero row or column.  A record of      *)
(* harness/drv_equil.c carries the input exponents and the exponents of    *)
(* every output (frexp); TLC evaluates EquilOK on it.                      *)
(* Encoding: ZERO = -9999 (exact zero), INF = 9999, NP2 = 7777 (not a      *)
(* power of two -- never expected).  ent = list of <<i, j, e>>.            *)
(***************************************************************************)
EXTENDS Naturals, Integers, Sequences, FiniteSets, TLC
CONSTANTS SMin,      \* exponent of the safe minimum (-1022 double, -126 single)
          PrecExp,   \* exponent of the machine precision eps*base (-52 / -23)
          MinSub,    \* exponent of the smallest subnormal (-1074 / -149)
          MaxExp     \* largest finite exponent (1023 / 127)
ZERO == 0 - 9999
INF  == 9999
SmallExp == SMin - PrecExp
Max2(a, b) == IF a > b THEN a ELSE b
Min2(a, b) == IF a < b THEN a ELSE b
MaxSet(S) == CHOOSE m \in S : \A x \in S : m >= x
MinSet(S) == CHOOSE m \in S : \A x \in S : m <= x
\* floating-point product of two powers of two (or zero)
Mul(a, b) == IF a = ZERO \/ b = ZERO THEN ZERO
             ELSE IF a + b > MaxExp THEN INF ELSE IF a + b < MinSub THEN ZERO ELSE a + b
Clip(e) == Min2(Max2(e, SMin), 0 - SMin)          \* min(max(x, smlnum), bignum), bignum = 1/smlnum
Inv(e) == 0 - e
\* floating-point quotient of two powers of two: gradual underflow down to MinSub, then zero
Norm(x) == IF x < MinSub THEN ZERO ELSE IF x > MaxExp THEN INF ELSE x

Entries(r) == {<<r.ent[k][1], r.ent[k][2], r.ent[k][3]>> : k \in 1..Len(r.ent)}
RowMax(E, i) == LET S == {x[3] : x \in {y \in E : y[1] = i}} IN IF S = {} THEN ZERO ELSE MaxSet(S)

Expected(r) ==
  LET m == r.m  n == r.n  E == Entries(r)
      rmax == [i \in 1..m |-> RowMax(E, i)]
      zrows == {i \in 1..m : rmax[i] = ZERO}
      rexp == [i \in 1..m |-> Inv(Clip(rmax[i]))]
      amax == MaxSet({rmax[i] : i \in 1..m})
      rowcnd == Norm(Max2(MinSet({rmax[i] : i \in 1..m}), SMin) - Min2(amax, 0 - SMin))
      cmaxf == [j \in 1..n |-> LET S == {Mul(x[3], rexp[x[1]]) : x \in {y \in E : y[2] = j}} IN IF S = {} THEN ZERO ELSE MaxSet(S)]
      zcols == {j \in 1..n : cmaxf[j] = ZERO}
      cexp == [j \in 1..n |-> Inv(Clip(cmaxf[j]))]
      colcnd == Norm(Max2(MinSet({cmaxf[j] : j \in 1..n}), SMin) - Min2(MaxSet({cmaxf[j] : j \in 1..n}), 0 - SMin))
      info == IF zrows # {} THEN MinSet(zrows) ELSE IF zcols # {} THEN m + MinSet(zcols) ELSE 0
      rowok == rowcnd >= 0 - 3 /\ amax >= SmallExp /\ amax <= 0 - SmallExp
      colok == colcnd >= 0 - 3
      equed == IF rowok THEN (IF colok THEN 0 ELSE 2) ELSE (IF colok THEN 1 ELSE 3)     \* NOEQUIL 0, ROW 1, COL 2, BOTH 3
  IN [info |-> info, amax |-> amax, rexp |-> rexp, cexp |-> cexp, rowcnd |-> rowcnd, colcnd |-> colcnd, equed |-> equed,
      zr |-> zrows # {}, zc |-> zcols # {}]

EquilOK(r) ==
  LET x == Expected(r)  E == Entries(r) IN
  /\ r.info = x.info                                         \* exactly zero row i -> i, column j -> m + j
  /\ r.amax = x.amax
  /\ (~x.zr => /\ \A i \in 1..r.m : r.R[i] = x.rexp[i]        \* R finite, positive, 1 / clipped row maximum
                /\ r.rowcnd = x.rowcnd)
  /\ (~x.zr /\ ~x.zc => /\ \A j \in 1..r.n : r.C[j] = x.cexp[j]
                        /\ r.colcnd = x.colcnd
                        \* the apply step scales exactly as the thresholds say and reports what it did
                        /\ r.equed = x.equed
                        /\ \A k \in 1..Len(r.ent) :
                              LET i == r.ent[k][1]  j == r.ent[k][2]  e == r.ent[k][3] IN
                              r.aout[k] = (IF x.equed = 0 THEN e
                                           ELSE IF x.equed = 1 THEN Mul(e, x.rexp[i])
                                           ELSE IF x.equed = 2 THEN Mul(e, x.cexp[j])
                                           ELSE IF Mul(x.cexp[j], x.rexp[i]) = INF THEN r.aout[k]      \* c_j * r_i overflows: outside the exact domain, no claim
                                           ELSE Mul(e, Mul(x.cexp[j], x.rexp[i]))))
=============================================================================
