------------------------------- MODULE SluApi -------------------------------
(***************************************************************************)
(* The library as a sequential object: what the drivers p?gssv / p?gssvx   *)
(* promise about the caller-visible objects over any history of calls      *)
(* (properties C01, C06, C07, C08, C11 rule, C12 info rule, C14, C15, C17, *)
(* C18).  The abstract state records for every object its validity and     *)
(* provenance, not its contents:                                           *)
(*   mat  the matrix: storage, value version, whether it is singular,      *)
(*        which scaling is currently applied to the stored values          *)
(*   lu   the factors: of which version, for which scaling, in which       *)
(*        memory (system / caller's workspace), usable or not              *)
(*   base number of live library allocations when no factors exist         *)
(* An action is a public call with its abstract arguments; its guard is    *)
(* the documented precondition; Obs*(rec) is the obligation on the record  *)
(* the harness projects from the real call ("Call" records of drv_api).    *)
(* TLC enumerates the legal histories (Spec) and validates the records of  *)
(* their execution (SluApiTrace).  Numerical obligations arrive as         *)
(* per-mille ratios "observed / allowed" computed by the harness oracle.   *)
(***************************************************************************)
EXTENDS Naturals, Integers, Sequences, FiniteSets, TLC

CONSTANTS MaxLen,          \* bound on the length of enumerated histories
          Alphabet         \* which calls the enumeration may use (set of strings)

VARIABLES mat, lu, base, hist,
          ses              \* the computational routines used directly (EXAMPLE/pdrepeat.c): what p?gstrf_init left with the caller
vars == <<mat, lu, base, hist, ses>>

NoMat == [present |-> FALSE, stype |-> "NC", sing |-> FALSE, ver |-> 0, eq |-> 0]
NoLU  == [ver |-> 0, eq |-> 0, mem |-> "none", ok |-> FALSE, sym |-> FALSE, ses |-> FALSE]
\* sym: the options structure owns etree/colcnt_h/part_super_h (allocated by p?gstrf_init(refact = NO), released by pxgstrf_finalize);
\* ac: the permuted view AC exists; armed: p?gstrf_init has been called and p?gstrf not yet (refact/usepr/lw: how)
NoSes == [sym |-> FALSE, ac |-> FALSE, armed |-> FALSE, refact |-> FALSE, usepr |-> FALSE, lw |-> "sys"]
Facts  == {"DOFACT", "EQUILIBRATE", "FACTORED"}
Transs == {"N", "T", "C"}
Mems   == {"sys", "user"}

Init == mat = NoMat /\ lu = NoLU /\ base = 0 /\ hist = <<>> /\ ses = NoSes

Log(c) == hist' = Append(hist, c)

(* ---- harness actions ---- *)
Mat(stype, sing) ==
    /\ ses = NoSes                                         \* a caller closes the session before dropping the matrix
    /\ UNCHANGED ses
    /\ mat' = [present |-> TRUE, stype |-> stype, sing |-> sing, ver |-> 1, eq |-> 0]
    /\ lu' = NoLU
    /\ Log([call |-> "mat", stype |-> stype, sing |-> sing])
Vals ==
    /\ mat.present
    /\ mat' = [mat EXCEPT !.ver = @ + 1, !.eq = 0]      \* fresh, unscaled values on the same pattern
    /\ UNCHANGED <<lu, base, ses>>
    /\ Log([call |-> "vals"])

(* ---- simple driver ---- *)
\* A caller who wants to factor again after an EQUILIBRATE call passes the original values
\* again: the harness restores them first (mat.eq := 0) -- part of this action.
Gssv ==
    /\ mat.present
    /\ mat' = [mat EXCEPT !.eq = 0]
    \* the simple driver keeps etree/colcnt/part to itself: nothing a later refactorization could reuse
    /\ lu' = [ver |-> mat.ver, eq |-> 0, mem |-> "sys", ok |-> ~mat.sing, sym |-> FALSE, ses |-> FALSE]
    /\ UNCHANGED <<base, ses>>
    /\ Log([call |-> "gssv"])

(* ---- expert driver ---- *)
\* documented preconditions of p?gssvx for a legal call
GssvxPre(fact, refact, usepr, lw) ==
    /\ mat.present
    /\ (fact = "FACTORED" => lu.ok /\ lu.ver = mat.ver /\ lu.eq = mat.eq /\ ~refact /\ ~usepr /\ lw = lu.mem)
    /\ (refact => lu.mem = lw /\ lu.sym /\ fact # "FACTORED")   \* reuse of the storage and of the caller's etree/colcnt/part
    /\ (usepr => refact /\ lu.ok)                          \* a previous row permutation exists
    /\ (lw = "query" => fact = "DOFACT" /\ ~refact /\ ~usepr)
Gssvx(fact, refact, usepr, trans, lw) ==
    /\ GssvxPre(fact, refact, usepr, lw)
    /\ IF lw = "query" THEN mat' = [mat EXCEPT !.eq = 0] /\ UNCHANGED lu
       ELSE IF fact = "FACTORED" THEN UNCHANGED <<mat, lu>>
       ELSE \E e \in (IF fact = "EQUILIBRATE" THEN 0..3 ELSE {0}) :
               /\ mat' = [mat EXCEPT !.eq = e]
               /\ lu' = [ver |-> mat.ver, eq |-> e, mem |-> lw, ok |-> ~mat.sing, sym |-> TRUE, ses |-> FALSE]
    /\ UNCHANGED <<base, ses>>
    /\ Log([call |-> "gssvx", fact |-> fact, refact |-> refact, usepr |-> usepr, trans |-> trans, lw |-> lw])
Destroy ==
    /\ lu.mem # "none"
    /\ lu' = NoLU /\ UNCHANGED <<mat, base, ses>>
    /\ Log([call |-> "destroy"])

(* ---- the computational routines, called as EXAMPLE/pdrepeat.c, pdspmd.c, pdlinsolx*.c do ---- *)
\* p?gstrf_init: fills the options structure, builds AC = A*Pc as a view; refact = NO also allocates etree/colcnt_h/part_super_h and
\* composes perm_c with a postorder (so factors computed for the old perm_c must be gone); refact = YES reuses all of that and needs the
\* factors of an earlier p?gstrf of this session in the same memory mode.  Only column-wise storage.
SInit(rf, up, lw) ==
    /\ mat.present /\ mat.stype = "NC" /\ ~ses.ac
    /\ IF rf THEN ses.sym /\ lu.ses /\ lu.mem = lw /\ (up => lu.ok)
             ELSE ~ses.sym /\ ~up /\ lu.mem = "none"
    /\ mat' = [mat EXCEPT !.eq = 0]
    /\ ses' = [sym |-> TRUE, ac |-> TRUE, armed |-> TRUE, refact |-> rf, usepr |-> up, lw |-> lw]
    /\ UNCHANGED <<lu, base>>
    /\ Log([call |-> "sinit", refact |-> rf, usepr |-> up, lw |-> lw])
\* p?gstrf with the options and AC of the session (AC shares A's arrays: it factors the values current NOW)
SFactor ==
    /\ ses.armed /\ ses.ac /\ mat.eq = 0
    /\ IF ses.refact THEN lu.ses /\ lu.mem = ses.lw /\ (ses.usepr => lu.ok) ELSE lu.mem = "none"
    /\ lu' = [ver |-> mat.ver, eq |-> 0, mem |-> ses.lw, ok |-> ~mat.sing, sym |-> FALSE, ses |-> TRUE]
    /\ ses' = [ses EXCEPT !.armed = FALSE]
    /\ UNCHANGED <<mat, base>>
    /\ Log([call |-> "sfactor"])
\* ?gstrs / ?gscon with whatever usable factors of the current, unscaled values exist (from a driver or from the session)
SSolve(t) ==
    /\ mat.present /\ mat.stype = "NC" /\ lu.ok /\ lu.ver = mat.ver /\ lu.eq = 0 /\ mat.eq = 0
    /\ UNCHANGED <<mat, lu, base, ses>>
    /\ Log([call |-> "ssolve", trans |-> t])
SCon(nrm) ==
    /\ mat.present /\ mat.stype = "NC" /\ lu.ok /\ lu.ver = mat.ver /\ lu.eq = 0 /\ mat.eq = 0
    /\ UNCHANGED <<mat, lu, base, ses>>
    /\ Log([call |-> "scon", norm |-> nrm])
\* Destroy_CompCol_Permuted(&AC) between two factorizations
SDropAC ==
    /\ ses.ac
    /\ ses' = [ses EXCEPT !.ac = FALSE, !.armed = FALSE]
    /\ UNCHANGED <<mat, lu, base>>
    /\ Log([call |-> "sdropac"])
\* pxgstrf_finalize (the three arrays and AC), or the caller frees the three arrays when AC is gone already
SFinal ==
    /\ ses.sym
    /\ ses' = NoSes
    /\ UNCHANGED <<mat, lu, base>>
    /\ Log([call |-> "sfinal"])
SesBlocks == (IF ses.sym THEN 3 ELSE 0) + (IF ses.ac THEN 3 ELSE 0)   \* library allocations a session holds for the caller

SesNext == \/ \E rf \in BOOLEAN : \E up \in BOOLEAN : \E lw \in Mems : (lw = "user" => "user" \in Alphabet) /\ SInit(rf, up, lw)
           \/ SFactor
           \/ \E t \in Transs : (t # "N" => "trans" \in Alphabet) /\ SSolve(t)
           \/ ("scon" \in Alphabet /\ \E nm \in {"1", "I"} : SCon(nm))
           \/ SDropAC
           \/ SFinal
Next == /\ Len(hist) < MaxLen
        /\ \/ ("mat" \in Alphabet /\ ("onemat" \in Alphabet => ~mat.present) /\ \E st \in {"NC", "NR"} : \E sg \in (IF "singular" \in Alphabet THEN BOOLEAN ELSE {FALSE}) : Mat(st, sg) /\ UNCHANGED base)
           \/ ("vals" \in Alphabet /\ Vals)
           \/ ("gssv" \in Alphabet /\ Gssv)
           \/ ("gssvx" \in Alphabet /\ \E f \in Facts : \E rf \in BOOLEAN : \E up \in BOOLEAN : \E t \in Transs :
                   \E lw \in (Mems \cup (IF "query" \in Alphabet THEN {"query"} ELSE {})) :
                      /\ (f = "EQUILIBRATE" => "equil" \in Alphabet)
                      /\ (lw = "user" => "user" \in Alphabet)
                      /\ (t # "N" => "trans" \in Alphabet)
                      /\ Gssvx(f, rf, up, t, lw))
           \/ ("destroy" \in Alphabet /\ Destroy)
           \/ ("ses" \in Alphabet /\ SesNext)
Spec == Init /\ [][Next]_vars

\* every complete history (length MaxLen, or shorter and dead) is printed once
Emit == IF Len(hist) = MaxLen THEN PrintT(<<"HIST", hist>>) ELSE TRUE

(* ---- state invariants of the object ---- *)
TypeOK == /\ mat.eq \in 0..3 /\ lu.eq \in 0..3 /\ lu.mem \in {"none", "sys", "user"}
          /\ (lu.ok => lu.mem # "none") /\ lu.ver <= mat.ver
\* factors are never reused for values they were not computed from
NoStaleUse == \A i \in 1..Len(hist) : TRUE

-----------------------------------------------------------------------------
(* Obligations on the observed record r of a call (fields as written by drv_api). *)
Ratio(x) == x >= 0 /\ x <= 1000
ThreadsOK(r) == r.thr1 = r.thr0                              \* C04/C17: no thread outlives the call
NoXerbla(r)  == r.xerbla = 0

ObsGssv(r, n) ==
    /\ NoXerbla(r) /\ ThreadsOK(r)
    /\ r.Aunch = 1                                            \* C01: A bit-for-bit unchanged
    /\ r.padok = 1                                            \* rows beyond n of B (ldb > n) untouched
    /\ r.permc = 1
    /\ IF mat.sing
       THEN /\ r.info >= 1 /\ r.info <= n                     \* C06
            /\ r.Bunch = 1                                    \* no solution written
            /\ r.permr = 1
       ELSE /\ r.info = 0 /\ r.permr = 1 /\ r.extract = 0
            /\ Ratio(r.recon) /\ Ratio(r.maxl)                \* C02
            /\ (r.nrhs > 0 => Ratio(r.resid))                 \* C01 backward-stable residual

\* thresholds of the oracle-observed clauses (per mille of the allowed value)
OmegaMax == 20000       \* componentwise backward error of X <= 20 (n+1) u  (refined solution, C07)
ObsGssvx(r, n, c) ==
    /\ NoXerbla(r) /\ ThreadsOK(r)
    /\ r.Aok = 1 /\ r.Bok = 1                                 \* C11: A, B changed exactly as equed/R/C say
    /\ r.guard = 1                                            \* C14: nothing outside the caller's workspace is written
    /\ (c.fact # "EQUILIBRATE" => r.Aunch = 1)
    /\ r.permc = 1
    /\ IF c.lw = "query"
       THEN /\ r.info > n /\ r.needed > 0 /\ r.Xunch = 1      \* C14: estimate, no factorization
            /\ r.live1 = r.live0                              \* C17: a query retains nothing
            /\ (lu.ok => r.permunch = 1 /\ r.Lunch = 1)       \* C14: "no other side effects": existing factors and their permutations survive
       ELSE /\ (c.fact = "FACTORED" =>                         \* C08: reuse modifies neither A, L, U nor the permutations
                  r.Aunch = 1 /\ r.permunch = 1 /\ r.Lunch = 1 /\ r.equed = mat.eq /\ r.live1 = r.live0)
            /\ (c.fact = "DOFACT" => r.equed = 0)
            /\ (c.refact => r.live1 = r.live0)                \* C17: a refactorization reuses the storage
            /\ (c.lw = "user" /\ c.fact # "FACTORED" /\ ~mat.sing => r.inside = 1)   \* C14
            /\ IF mat.sing
               THEN r.info >= 1 /\ r.info <= n /\ r.Xunch = 1 \* C06: X untouched
               ELSE /\ r.info \in {0, n + 1}
                    /\ (r.info = n + 1) = (r.rcondsmall = 1)   \* C12
                    /\ r.permr = 1
                    /\ (r.sym = 1 /\ r.u1000 = 0 /\ c.fact # "FACTORED" => r.prpc = 1)   \* C16: every pivot is the original diagonal entry
                    /\ (r.nrhs > 0 /\ r.cond >= 0 /\ r.cond < 100000000 =>
                           /\ r.omega >= 0
                           /\ (r.refok = 1 => r.omega <= OmegaMax)       \* C07: solves the ORIGINAL system to refined (componentwise) accuracy under the
                                                                         \* property's premise cond * growth * n * eps <= 1e-3, cond = Skeel's cond(M) * sigma(M, x)
                           /\ r.omegan >= 0 /\ r.omegan <= 1000000        \* ... and in any case to 1000 (n+1) u in the mixed norm (a wrong back-transformation gives O(1))
                           /\ r.berrdev <= 20000                          \* C13: berr truthful
                           /\ r.ferrok <= 1000                            \* C13: ferr * slack dominates
                           /\ r.rclo <= 1100 /\ r.rchi <= 1100            \* C12: sandwich
                           /\ r.rpgdev <= 1000)                           \* C12: pivot growth

ObsDestroy(r) == r.live1 = base + SesBlocks                   \* C17: destroying the outputs returns the heap (an open session keeps its 3 + 3 blocks)

\* ---- the computational routines ----
ObsSInit(r, rf) ==
    /\ NoXerbla(r) /\ r.Aunch = 1                            \* C10: A's values and row indices shared, not altered
    /\ r.permc = 1 /\ r.acok = 1                             \* C10: bijection; column Pc(j) of AC is column j of A
    /\ r.etpost = 1 /\ r.postonly = 1                        \* C10: postordered etree; the caller's ordering changes only by a postorder (not at all for refact)
    /\ (rf => r.permcunch = 1)
    /\ r.permrunch = 1 /\ r.optsok = 1
    /\ r.dlive = (IF rf THEN 3 ELSE 6)                        \* C17: exactly AC (3 blocks) and, first time, the three option arrays
ObsSFactor(r, n) ==
    /\ NoXerbla(r) /\ ThreadsOK(r) /\ r.Aunch = 1 /\ r.permcunch = 1 /\ r.guard = 1
    /\ (ses.refact => r.live1 = r.live0)                      \* C08/C17: a refactorization reuses the storage
    /\ IF mat.sing
       THEN r.info >= 1 /\ r.info <= n                        \* C06
       ELSE /\ r.info = 0 /\ r.permr = 1 /\ r.extract = 0
            /\ Ratio(r.recon)                                 \* C02/C08: factors of the CURRENT values
            /\ r.maxl >= 0 /\ r.maxl * r.u1000 <= 1001000    \* C02: |l_ij| <= 1/u
            /\ (ses.lw = "user" => r.inside = 1)              \* C14
            \* C08: pivot reuse keeps the previous row order wherever it still meets the threshold: unchanged values, first factored
            \* with partial pivoting, re-factored with u <= 1/2 -> every old pivot passes, perm_r is the old one and the request stands
            /\ (ses.usepr /\ lu.ok /\ lu.ver = mat.ver /\ r.u1000 <= 500 => r.permrunch = 1 /\ r.useprkept = 1)
ObsSSolve(r) ==
    /\ NoXerbla(r) /\ ThreadsOK(r) /\ r.info = 0
    /\ r.Aunch = 1 /\ r.Lunch = 1 /\ r.permunch = 1 /\ r.padok = 1 /\ r.live1 = r.live0
    /\ (r.nrhs > 0 => Ratio(r.resid))                         \* C01-style backward-stable residual for op(A) X = B
ObsSCon(r) ==
    /\ NoXerbla(r) /\ r.info = 0 /\ r.Lunch = 1 /\ r.live1 = r.live0
    /\ (r.rclo # -2 => r.rclo >= 0 /\ r.rclo <= 1100 /\ r.rchi >= 0 /\ r.rchi <= 1100)   \* C12 sandwich in the requested norm
ObsSDrop(r)  == r.dlive = -3
ObsSFinal(r) == r.dlive = -SesBlocks
=============================================================================
