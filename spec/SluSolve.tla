------------------------------ MODULE SluSolve ------------------------------
(* The triangular solves ?gstrs and sp_?trsv as sweeps over the supernodes of the returned factor L
   (supernode s = <<first column, columns, rows, offset of its block in the values of L>>, in NUMBER order,
   which respects the elimination tree but is not the column order when several threads numbered them;
   U is stored by columns next to it).  Two parts:

   (1) a state machine of the sweeps at the grain "one supernode is handed to one dense kernel":
       Fwd (x := inv(L) x by increasing number: unit lower solve on the diagonal block, then the block below it
       times the solved part is subtracted from the rows of the supernode), Bwd (x := inv(U) x by decreasing number:
       upper solve on the diagonal block, then every column of U belonging to the supernode updates the rows above),
       and their transposes FwdT / BwdT (the update is gathered BEFORE the dense solve and the orders are exchanged).
       Ghost state: pend[i] = columns whose contribution to component i is still outstanding.  FinalBeforeUse says a
       component is complete when a dense solve consumes it; it holds for every structure WellFormed allows
       (rows of L below the supernode, rows of U above it) and TLC refutes it for a structure that is not
       (MC configuration Shape = "bad"), which is why C09's well-formedness is what C01 needs.

   (2) the declarative image of the machine on a recorded call, ExpectedCalls(r): exactly which kernel is
       called with which dimensions, which block of L (offset) and which part of B / x (offset: first column of the
       supernode + right-hand side * leading dimension), in which order.  SolveOK(r) compares it with the calls recorded
       from the real routine through --wrap of ?lsolve / ?matvec / ?usolve / ?trsv_ / sp_?trsv (and of ?trsm_ / ?gemm_ / ?gemv_ in
       the USE_VENDOR_BLAS configuration, where the same blocks go to the BLAS).  The machine's own output
       is checked against ExpectedCalls in the model runs (EmitsExpected), so the two descriptions cannot drift apart. *)
EXTENDS Naturals, Integers, Sequences, FiniteSets, SequencesExt, TLC

Fs(s) == s[1]
Nc(s) == s[2]
Nr(s) == s[3]
Lp(s) == s[4]

(* ---------------------------------------------------------------- (2) kernel calls of one supernode *)
\* code, a, b, c, d, e, offset in the values of L, offset in the vector / in B.  bl = 0: the library's own dense kernels,
\* bl = 1: the USE_VENDOR_BLAS configuration (what the repository's CMake build compiles): the same blocks go to the BLAS
LNCalls(s, x, bl) ==
    IF Nc(s) = 1 THEN <<>>
    ELSE IF bl = 0 THEN << <<1, Nr(s), Nc(s), 0, 0, 0, Lp(s), Fs(s) + x>>, <<2, Nr(s), Nr(s) - Nc(s), Nc(s), 0, 0, Lp(s) + Nc(s), Fs(s) + x>> >>
                   ELSE << <<5, 101, Nc(s), Nr(s), 0, 0, Lp(s), Fs(s) + x>>, <<8, 0, Nr(s) - Nc(s), Nc(s), Nr(s), 1, Lp(s) + Nc(s), Fs(s) + x>> >>
UNCalls(s, x, bl) ==
    IF Nc(s) = 1 THEN <<>>
    ELSE IF bl = 0 THEN << <<3, Nr(s), Nc(s), 0, 0, 0, Lp(s), Fs(s) + x>> >> ELSE << <<5, 200, Nc(s), Nr(s), 0, 0, Lp(s), Fs(s) + x>> >>
\* transposed sweeps use the BLAS ?trsv_ on the diagonal block in both configurations: 100 uplo + 10 trans + unit
LTCalls(s, x, t) == IF Nc(s) = 1 THEN <<>> ELSE << <<5, 100 + 10 * t + 1, Nc(s), Nr(s), 0, 0, Lp(s), Fs(s) + x>> >>
UTCalls(s, x, t) == IF Nc(s) = 1 THEN <<>> ELSE << <<5, 200 + 10 * t, Nc(s), Nr(s), 0, 0, Lp(s), Fs(s) + x>> >>
\* ?gstrs with the BLAS: all right-hand sides of a supernode at once (?trsm_: 1000 side + 100 uplo + 10 trans + unit, m, n, lda, ldb; ?gemm_: m, n, k, lda, ldb)
LNBlas3(s, nrhs, ldb) == IF Nc(s) = 1 THEN <<>>
                         ELSE << <<6, 1101, Nc(s), nrhs, Nr(s), ldb, Lp(s), Fs(s)>>, <<7, Nr(s) - Nc(s), nrhs, Nc(s), Nr(s), ldb, Lp(s) + Nc(s), Fs(s)>> >>
UNBlas3(s, nrhs, ldb) == IF Nc(s) = 1 THEN <<>> ELSE << <<6, 1200, Nc(s), nrhs, Nr(s), ldb, Lp(s), Fs(s)>> >>

Rev(sq) == [i \in 1..Len(sq) |-> sq[Len(sq) + 1 - i]]
Cat(f(_), sq) == FlattenSeq([i \in 1..Len(sq) |-> f(sq[i])])

\* sp_?trsv(uplo, trans, diag) on one vector; tb = the trans code the BLAS kernel must get
\* (real data: 'T' also for 'C'; complex data: the caller's letter)
TrsvCalls(sn, uplo, trans, tb, bl) ==
    IF trans = 0
    THEN IF uplo = 1 THEN Cat(LAMBDA s: LNCalls(s, 0, bl), sn) ELSE Cat(LAMBDA s: UNCalls(s, 0, bl), Rev(sn))
    ELSE IF uplo = 1 THEN Cat(LAMBDA s: LTCalls(s, 0, tb), Rev(sn)) ELSE Cat(LAMBDA s: UTCalls(s, 0, tb), sn)

\* ?gstrs: no transpose = all right-hand sides supernode by supernode (forward, then backward);
\* transposed = right-hand side by right-hand side through sp_?trsv (U' first, then L')
GstrsCalls(sn, op, nrhs, ldb, ts, bl) ==
    IF op = 0
    THEN IF bl = 0
         THEN Cat(LAMBDA s: FlattenSeq([j \in 1..nrhs |-> LNCalls(s, (j - 1) * ldb, 0)]), sn)
              \o Cat(LAMBDA s: FlattenSeq([j \in 1..nrhs |-> UNCalls(s, (j - 1) * ldb, 0)]), Rev(sn))
         ELSE Cat(LAMBDA s: LNBlas3(s, nrhs, ldb), sn) \o Cat(LAMBDA s: UNBlas3(s, nrhs, ldb), Rev(sn))
    ELSE FlattenSeq([j \in 1..nrhs |-> << <<4, 2, ts, 0, 0, 0, 0, (j - 1) * ldb>>, <<4, 1, ts, 1, 0, 0, 0, (j - 1) * ldb>> >>])

\* the supernodes tile 0..n-1 (NUMBER order is the order of creation: compatible with the elimination tree, not the column order, once
\* several threads number supernodes of different subtrees), each has at least as many rows as columns, blocks do not overlap
SnOK(sn, n) ==
    /\ (n = 0) = (Len(sn) = 0)
    /\ \A i \in 1..Len(sn) : Nc(sn[i]) >= 1 /\ Fs(sn[i]) >= 0 /\ Fs(sn[i]) + Nc(sn[i]) <= n /\ Nr(sn[i]) >= Nc(sn[i]) /\ Lp(sn[i]) >= 0 /\ Nr(sn[i]) <= n - Fs(sn[i])
    /\ \A c \in 0..n - 1 : Cardinality({i \in 1..Len(sn) : Fs(sn[i]) <= c /\ c < Fs(sn[i]) + Nc(sn[i])}) = 1
    /\ \A i, j \in 1..Len(sn) : i # j =>
          \/ Lp(sn[i]) + Nr(sn[i]) * Nc(sn[i]) <= Lp(sn[j])
          \/ Lp(sn[j]) + Nr(sn[j]) * Nc(sn[j]) <= Lp(sn[i])

ExpectedCalls(r) ==
    IF r.kind = 0 THEN GstrsCalls(r.sn, r.op, r.nrhs, r.ldb, IF r.cplx = 1 THEN r.op ELSE 1, r.blas)
    ELSE TrsvCalls(r.sn, r.uplo, r.op, IF r.cplx = 1 THEN r.op ELSE 1, r.blas)

SolveOK(r) ==
    /\ SnOK(r.sn, r.n)
    /\ r.info = 0
    /\ r.kind = 0 => r.ldb >= r.n /\ r.nrhs >= 0
    /\ r.kind = 1 => (r.diag = 1) = (r.uplo = 1)          \* every caller in the library: unit L, non-unit U
    /\ r.ev = ExpectedCalls(r)

(* ---------------------------------------------------------------- (1) the sweeps as a state machine *)
CONSTANTS N,            \* columns
          Part,         \* columns per supernode, in number order (a composition of N)
          Shape         \* "good": rows of L below / rows of U above the supernode (what WellFormedLU demands); "bad": anywhere outside it

VARIABLES lrows,        \* lrows[k] = rows of supernode k outside its diagonal block
          urows,        \* urows[c] = rows of column c of U outside the diagonal block
          mode,         \* <<uplo, trans>> of the sweep
          pos,          \* supernodes processed
          pend,         \* pend[i] = columns whose contribution to x[i] is outstanding
          solved,       \* components that went through their dense solve
          out,          \* kernel calls made
          bad           \* a dense solve consumed an incomplete component / a gather read an unsolved one
svars == <<lrows, urows, mode, pos, pend, solved, out, bad>>

NS == Len(Part)
First(k) == IF k = 1 THEN 0 ELSE LET f[i \in 1..NS] == IF i = 1 THEN 0 ELSE f[i - 1] + Part[i - 1] IN f[k]
Cols(k) == First(k) .. First(k) + Part[k] - 1
SnOf(c) == CHOOSE k \in 1..NS : c \in Cols(k)
Rng == 0..N - 1
\* the descriptors ?gstrs reads from the factor: rows = columns + rows outside the block, blocks stored one after the other
SnDesc(lr) == LET off[k \in 1..NS] == IF k = 1 THEN 0 ELSE off[k - 1] + Part[k - 1] * (Part[k - 1] + Cardinality(lr[k - 1]))
              IN [k \in 1..NS |-> <<First(k), Part[k], Part[k] + Cardinality(lr[k]), off[k]>>]

LShapes == {f \in [1..NS -> SUBSET Rng] : \A k \in 1..NS : f[k] \cap Cols(k) = {} /\ (Shape = "good" => \A i \in f[k] : i > First(k))}
UShapes == {f \in [Rng -> SUBSET Rng] : \A c \in Rng : f[c] \cap Cols(SnOf(c)) = {} /\ (Shape = "good" => \A i \in f[c] : i < c)}

\* x := inv(T) x: component i receives contributions from the columns c outside its supernode with T[i, c] # 0;
\* x := inv(T') x: component i gathers from the components r with T[r, i] # 0.  Inside a supernode the dense kernel orders the work.
Contrib(lr, ur, m, i) ==
    LET own == Cols(SnOf(i)) IN
    IF m[2] = 0
    THEN IF m[1] = 1 THEN {c \in Rng : c \notin own /\ i \in lr[SnOf(c)]}
                     ELSE {c \in Rng : c \notin own /\ i \in ur[c]}
    ELSE IF m[1] = 1 THEN lr[SnOf(i)] ELSE ur[i]

Order == IF (mode[1] = 1) = (mode[2] = 0) THEN [i \in 1..NS |-> i] ELSE [i \in 1..NS |-> NS + 1 - i]

SInit == /\ lrows \in LShapes
         /\ urows \in UShapes
         /\ mode \in {<<1, 0>>, <<2, 0>>, <<1, 1>>, <<2, 1>>}
         /\ pos = 0
         /\ pend = [i \in Rng |-> Contrib(lrows, urows, mode, i)]
         /\ solved = {}
         /\ out = <<>>
         /\ bad = FALSE

\* no transpose: dense solve of the block, then scatter its contribution to the rows it reaches
StepN == /\ mode[2] = 0 /\ pos < NS
         /\ LET k == Order[pos + 1]
                s == SnDesc(lrows)[k]
                tgt == IF mode[1] = 1 THEN lrows[k] ELSE UNION {urows[c] : c \in Cols(k)}
            IN /\ bad' = (bad \/ \E c \in Cols(k) : pend[c] # {})
               /\ solved' = solved \cup Cols(k)
               /\ pend' = [i \in Rng |-> IF i \in tgt THEN pend[i] \ Cols(k) ELSE pend[i]]
               /\ out' = out \o (IF mode[1] = 1 THEN LNCalls(s, 0, 0) ELSE UNCalls(s, 0, 0))
         /\ pos' = pos + 1
         /\ UNCHANGED <<lrows, urows, mode>>

\* transposed: gather from components that must already be solved, then the dense solve
StepT == /\ mode[2] # 0 /\ pos < NS
         /\ LET k == Order[pos + 1]
                s == SnDesc(lrows)[k]
                src == IF mode[1] = 1 THEN lrows[k] ELSE UNION {urows[c] : c \in Cols(k)}
            IN /\ bad' = (bad \/ ~(src \subseteq solved))
               /\ solved' = solved \cup Cols(k)
               /\ pend' = [i \in Rng |-> IF i \in Cols(k) THEN {} ELSE pend[i]]
               /\ out' = out \o (IF mode[1] = 1 THEN LTCalls(s, 0, 1) ELSE UTCalls(s, 0, 1))
         /\ pos' = pos + 1
         /\ UNCHANGED <<lrows, urows, mode>>

SNext == StepN \/ StepT
SSpec == SInit /\ [][SNext]_svars /\ WF_svars(SNext)

FinalBeforeUse == ~bad
EmitsExpected == pos = NS => out = TrsvCalls(SnDesc(lrows), mode[1], mode[2], 1, 0) /\ SnOK(SnDesc(lrows), N)
AllSolved == pos = NS => solved = Rng /\ (mode[2] = 0 => \A i \in Rng : pend[i] = {})
STerminates == <>(pos = NS)
=============================================================================
