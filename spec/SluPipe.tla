------------------------------ MODULE SluPipe ------------------------------
(***************************************************************************)
(* The parallel numerical factorization of SuperLU_MT (p?gstrf):           *)
(* scheduler and task queue, the linear pipeline over the elimination      *)
(* tree, supernode numbering, storage allocation under several locks,      *)
(* symmetric pruning, and the master's post-processing (fixupL).           *)
(*                                                                         *)
(* One action per critical section / linearization point of the code;      *)
(* action names are the names of the SLU_MT_VERIF events (SluPipeTrace).   *)
(* Columns are 1..N here (0..n-1 in the code), the dummy root is N+1.      *)
(*                                                                         *)
(* What the code decides from numerical or structural data (join or start  *)
(* a supernode, which descendants a DFS reaches, which supernodes a column *)
(* prunes, zero pivots) is nondeterministic here, within the constraints   *)
(* the code enforces (Sbnd, MaxSuper, "closed supernodes only, once").     *)
(*                                                                         *)
(* Three switches describe variants of the design so that the model can    *)
(* show why a repair is needed (DESIGN.md sections 2.6 and 6):             *)
(*   FixupOrder   "storage" = fixupL compacts in storage order (repaired)  *)
(*                "number"  = in supernode-number order (original, F1)     *)
(*   BusyRead     "first"   = the busy update reads the first subscript    *)
(*                            copy; "second" = the prunable copy (F2)      *)
(*   PruneOrder   "before"  = a column is released after it has pruned;    *)
(*                "after"   = released first, pruning afterwards           *)
(***************************************************************************)
EXTENDS Naturals, Integers, Sequences, FiniteSets, TLC

CONSTANTS N,          \* number of columns
          P,          \* number of worker threads
          PanelSize, Relax, MaxSuper,
          Par,        \* Par[j] = parent of column j in the postordered column etree (root = N+1)
          Sbnd,       \* columns that start a supernode of the bounding factor H
          FixupOrder, BusyRead, PruneOrder,
          ZeroPivots  \* TRUE: zero pivots may occur (any column), FALSE: never

Cols  == 1..N
ROOT  == N + 1
Procs == 1..P
EMPTY == 0

DONE == 0  BUSY == 1  CANGO == 2  CANPIPE == 3  UNREADY == 4
RELAXED == 0  REGULAR == 2

VARIABLES
  \* scheduler state (SCHED_LOCK unless said otherwise)
  pstate, ukids, fb, queue, qhead, tasks, spin,
  dpend,      \* panels whose STATE = DONE store is in flight (unlocked store)
  \* global LU bookkeeping
  supno, nsuper, xsupBeg, xsupEnd, final, lsubOff, lsubLen, nextl, nextu, ispruned,
  \* per worker
  pc, jcol, bcol, lbusy, kcol, ksup, fsupc, krep, jj,
  covered,    \* source columns whose update has been applied to the current panel
  reading, writing,   \* memory regions <<supernode, copy>> being read / written
  pr,         \* supernode rep. being pruned
  sing,       \* smallest column (1-based) with a zero pivot seen by the worker, 0 if none
  \* exactly-once bookkeeping
  pivcnt,
  zset,       \* ghost: columns at which a zero pivot occurred
  \* master
  mpc, fixq, moved, minfo, fdst, fixok

sch   == <<pstate, ukids, fb, queue, qhead, tasks, spin, dpend>>
lu    == <<supno, nsuper, xsupBeg, xsupEnd, final, lsubOff, lsubLen, nextl, nextu, ispruned>>
loc   == <<jcol, bcol, lbusy, kcol, ksup, fsupc, krep, jj, covered, reading, writing, pr, sing>>
mast  == <<mpc, fixq, moved, minfo, fdst, fixok>>
vars  == <<sch, lu, pc, loc, pivcnt, zset, mast>>

-----------------------------------------------------------------------------
(* Forest tables: constant-level, evaluated once. *)
NKidsT  == [d \in 1..ROOT |-> Cardinality({i \in Cols : Par[i] = d})]
RECURSIVE IsAnc(_, _)
IsAnc(a, d) == IF d >= a THEN d = a ELSE IsAnc(a, TLCEval(Par[d]))      \* a is ancestor-or-self of d
DescT   == [a \in Cols |-> {d \in Cols : d < a /\ IsAnc(a, d)}]
NDescT  == [a \in 1..ROOT |-> IF a = ROOT THEN N ELSE Cardinality(DescT[a])]

PostOrdered == /\ \A j \in Cols : Par[j] > j /\ Par[j] <= ROOT
               /\ \A i \in Cols : \A j \in Cols : (i < j /\ j < Par[i]) => Par[j] <= Par[i]

(* relaxed supernodes: transcription of pxgstrf_relax_snode *)
RECURSIVE ClimbRelax(_)
ClimbRelax(j) == IF Par[j] # ROOT /\ NDescT[Par[j]] < Relax THEN ClimbRelax(TLCEval(Par[j])) ELSE j
RECURSIVE NextLeaf(_)
NextLeaf(j) == IF j > N THEN ROOT ELSE IF NDescT[j] = 0 THEN j ELSE NextLeaf(TLCEval(j + 1))
RECURSIVE RelaxList(_)
RelaxList(j) == IF j > N THEN <<>>
                ELSE LET e == TLCEval(ClimbRelax(j)) IN <<<<j, e - j + 1>>>> \o RelaxList(TLCEval(NextLeaf(e + 1)))
RLT == RelaxList(NextLeaf(1))
RelaxStartT == {RLT[i][1] : i \in 1..Len(RLT)}
RSz(c) == RLT[CHOOSE i \in 1..Len(RLT) : RLT[i][1] = c][2]

(* panels: transcription of ParallelInit *)
Min(a, b) == IF a < b THEN a ELSE b
WTop == IF PanelSize \div 2 = 0 THEN 1 ELSE PanelSize \div 2
WLimit(i) == LET hi   == Min(i + PanelSize, N + 1)
                 cand == {k \in (i + 1)..(hi - 1) : k \in RelaxStartT}
             IN IF cand # {} THEN (CHOOSE k \in cand : \A k2 \in cand : k <= k2) - i
                ELSE IF hi = N + 1 THEN N + 1 - i ELSE PanelSize
DoSplit(i) == (N - i + 1) < PanelSize * 12
Branch(i, w) == LET bad == {j \in (i + 1)..(i + w - 1) : NKidsT[j] > 1}
                IN IF bad = {} THEN w ELSE (CHOOSE j \in bad : \A j2 \in bad : j <= j2) - i
RECURSIVE Panels(_, _)
Panels(i, split) ==
   IF i > N THEN <<>>
   ELSE IF i \in RelaxStartT
        THEN <<<<i, RSz(i), RELAXED>>>> \o Panels(TLCEval(i + RSz(i)), split)
        ELSE LET w0 == TLCEval(WLimit(i))
                 sp == TLCEval(split \/ DoSplit(i))
                 w1 == IF sp /\ w0 > WTop THEN WTop ELSE w0
                 w2 == TLCEval(Branch(i, w1))
             IN <<<<i, w2, REGULAR>>>> \o Panels(TLCEval(i + w2), sp)
PST == Panels(1, FALSE)
PanelOf == [c \in Cols |-> CHOOSE k \in 1..Len(PST) : PST[k][1] <= c /\ c < PST[k][1] + PST[k][2]]
Lead    == [c \in Cols |-> PST[PanelOf[c]][1]]
PSize   == [c \in 1..ROOT |-> IF c = ROOT THEN 1 ELSE PST[PanelOf[c]][2]]   \* size of the panel containing c
PType   == [c \in Cols |-> PST[PanelOf[c]][3]]
Leads   == {PST[k][1] : k \in 1..Len(PST)}
PCols(l) == l..(l + PSize[l] - 1)
DadPanel(l) == Par[l + PSize[l] - 1]
RECURSIVE SumKids(_, _)
SumKids(i, w) == IF w = 0 THEN 0 ELSE NKidsT[i] + SumKids(TLCEval(i + 1), TLCEval(w - 1))
PDescT == [l \in Leads |-> (UNION {DescT[c] : c \in PCols(l)}) \ PCols(l)]

(* assumptions on the constants: what sp_colorder guarantees (checked on the real code by C10).
   SbndOK (every leaf and every branch column starts a supernode of the bounding factor) holds for the
   column-etree mode (qrnzcnt) and is assumed by the exhaustive model runs; the symmetric mode
   (cholnzcnt) does not guarantee it, so recorded executions are validated without it. *)
SbndOK == \A j \in Cols : (NKidsT[j] # 1) => j \in Sbnd
ASSUME PostOrdered

-----------------------------------------------------------------------------
Init ==
  /\ pstate = [c \in 1..ROOT |-> IF c \in RelaxStartT THEN CANGO ELSE UNREADY]
  /\ ukids  = [c \in 1..ROOT |-> IF c = ROOT THEN NKidsT[ROOT]
                                 ELSE IF c \in Leads THEN SumKids(c, PSize[c]) - (PSize[c] - 1)
                                 ELSE NKidsT[c]]
  /\ tasks  = Len(PST)
  /\ queue  = [i \in 1..Len(RLT) |-> RLT[i][1]]
  /\ fb     = [c \in 1..ROOT |-> c]
  /\ qhead  = 1
  /\ spin   = [c \in Cols |-> 0]
  /\ dpend  = {}
  /\ supno = [c \in Cols |-> 0] /\ nsuper = 0
  /\ xsupBeg = [s \in Cols |-> 0] /\ xsupEnd = [s \in Cols |-> 0]
  /\ final = [c \in Cols |-> FALSE]
  /\ lsubOff = [s \in Cols |-> 0] /\ lsubLen = [s \in Cols |-> 0] /\ nextl = 1 /\ nextu = 1
  /\ ispruned = [c \in Cols |-> FALSE]
  /\ pc = [p \in Procs |-> "loop"]
  /\ jcol = [p \in Procs |-> EMPTY] /\ bcol = [p \in Procs |-> EMPTY]
  /\ lbusy = [p \in Procs |-> {}] /\ kcol = [p \in Procs |-> 0] /\ ksup = [p \in Procs |-> 0]
  /\ fsupc = [p \in Procs |-> 0] /\ krep = [p \in Procs |-> 0] /\ jj = [p \in Procs |-> 0]
  /\ covered = [p \in Procs |-> {}] /\ reading = [p \in Procs |-> {}] /\ writing = [p \in Procs |-> {}]
  /\ pr = [p \in Procs |-> 0] /\ sing = [p \in Procs |-> 0]
  /\ pivcnt = [c \in Cols |-> 0] /\ zset = {}
  /\ mpc = "run" /\ fixq = <<>> /\ moved = {} /\ minfo = 0 /\ fdst = 1 /\ fixok = TRUE

-----------------------------------------------------------------------------
(* ---- worker loop test (unlocked read of tasks_remain) and exit ---- *)
\* A scheduler section that has logged its decrement may not have stored it
\* yet, and one that has stored it may not have logged yet: the racy reader
\* may see tasks or tasks minus the sections in flight.
InFlight == Cardinality({q \in Procs : pc[q] = "sched"})
FlushDone(p) == IF jcol[p] \in dpend
                THEN /\ pstate' = [pstate EXCEPT ![jcol[p]] = DONE] /\ dpend' = dpend \ {jcol[p]}
                ELSE UNCHANGED <<pstate, dpend>>

LoopWhen(p, seenPositive) ==
           /\ pc[p] = "loop" /\ mpc = "run"
           /\ seenPositive
           /\ pc' = [pc EXCEPT ![p] = "sched"]
           /\ FlushDone(p)
           /\ UNCHANGED <<lu, loc, pivcnt, zset, mast, ukids, fb, queue, qhead, tasks, spin>>
Loop(p) == LoopWhen(p, tasks > 0)

ExitWhen(p, seenZero) ==
           /\ pc[p] = "loop" /\ mpc = "run"
           /\ seenZero
           /\ pc' = [pc EXCEPT ![p] = "exit"]
           /\ FlushDone(p)
           /\ UNCHANGED <<lu, loc, pivcnt, zset, mast, ukids, fb, queue, qhead, tasks, spin>>
\* In the model the scheduler section is atomic, so the loop test is exact.
Exit(p) == ExitWhen(p, tasks <= 0)
\* In a recorded execution the Sched event is logged at the end of the critical section,
\* after the decrement has been stored: a loop test may already have seen the decrement
\* of a section whose event is not logged yet (used by SluPipeTrace only).
ExitRacy(p) == ExitWhen(p, tasks - InFlight <= 0)

(* ---- the scheduler: one critical section ---- *)
RECURSIVE Deq(_, _, _)
Deq(q, h, st) == IF h > Len(q) THEN <<EMPTY, h>>
                 ELSE IF st[q[h]] >= CANGO THEN <<q[h], h + 1>> ELSE Deq(q, TLCEval(h + 1), st)

\* climb from the recorded farthest busy descendant while panels are DONE; a panel
\* whose DONE store is in flight may be seen either way
\* (maybe = the panels that may be seen either way: in the model exactly dpend; for a recorded execution
\* also the panels whose store was logged while this critical section may already have been reading)
RECURSIVE ClimbSet(_, _, _)
ClimbSet(st, b, maybe) ==
                   IF b = ROOT THEN {b}
                   ELSE IF b \in maybe THEN {b} \cup ClimbSet(st, TLCEval(DadPanel(b)), maybe)
                   ELSE IF st[b] = DONE THEN ClimbSet(st, TLCEval(DadPanel(b)), maybe)
                   ELSE {b}

SchedWith(p, maybe) ==
  /\ pc[p] = "sched"
  /\ LET cur == jcol[p]
         dad == IF cur # EMPTY THEN DadPanel(cur) ELSE EMPTY
         uk1 == IF cur # EMPTY THEN [ukids EXCEPT ![dad] = @ - 1] ELSE ukids
         takeDad == cur # EMPTY /\ uk1[dad] = 0 /\ pstate[dad] > BUSY
         dq  == Deq(queue, qhead, pstate)
         new == IF takeDad THEN dad ELSE dq[1]
         qh1 == IF takeDad THEN qhead ELSE dq[2]
     IN /\ ukids' = uk1
        /\ qhead' = qh1
        /\ IF new = EMPTY
           THEN /\ jcol' = [jcol EXCEPT ![p] = EMPTY]
                /\ pc' = [pc EXCEPT ![p] = "loop"]
                /\ UNCHANGED <<pstate, fb, queue, tasks, spin, bcol>>
           ELSE LET w   == PSize[new]
                    nd  == IF new = ROOT THEN ROOT ELSE DadPanel(new)
                    st1 == [pstate EXCEPT ![new] = BUSY]
                    canpipe == nd < ROOT /\ uk1[nd] = 1
                    st2 == IF canpipe THEN [st1 EXCEPT ![nd] = CANPIPE] ELSE st1
                IN \E b \in ClimbSet(st2, fb[new], maybe) :
                   /\ tasks' = tasks - 1
                   /\ pstate' = st2
                   /\ spin' = [c \in Cols |-> IF c >= new /\ c < new + w THEN 1 ELSE spin[c]]
                   /\ queue' = IF canpipe THEN Append(queue, nd) ELSE queue
                   /\ fb' = [fb EXCEPT ![nd] = b]
                   /\ bcol' = [bcol EXCEPT ![p] = b]
                   /\ jcol' = [jcol EXCEPT ![p] = new]
                   /\ pc' = [pc EXCEPT ![p] = IF new = ROOT THEN "bad"
                                              ELSE IF PType[new] = RELAXED THEN "snew" ELSE "mark"]
  /\ UNCHANGED <<lu, lbusy, kcol, ksup, fsupc, krep, jj, covered, reading, writing, pr, sing, dpend, pivcnt, zset, mast>>

Sched(p) == SchedWith(p, dpend)

(* ---- relaxed supernode at the bottom of the etree ---- *)
MyCols(p) == PCols(jcol[p])

SnNew(p) == /\ pc[p] = "snew"                    \* NewNsuper under NSUPER_LOCK
            /\ nsuper' = nsuper + 1
            /\ supno' = [c \in Cols |-> IF c \in MyCols(p) THEN nsuper + 1 ELSE supno[c]]
            /\ xsupBeg' = [xsupBeg EXCEPT ![nsuper + 1] = jcol[p]]
            /\ xsupEnd' = [xsupEnd EXCEPT ![nsuper + 1] = jcol[p] + PSize[jcol[p]]]
            /\ writing' = [writing EXCEPT ![p] = {<<nsuper + 1, 1>>, <<nsuper + 1, 2>>}]
            /\ pc' = [pc EXCEPT ![p] = "salloc"]
            /\ UNCHANGED <<sch, final, lsubOff, lsubLen, nextl, nextu, ispruned, pivcnt, zset, mast,
                           jcol, bcol, lbusy, kcol, ksup, fsupc, krep, jj, covered, reading, pr, sing>>
SnAllocN(p, num) ==                              \* Glu_alloc(LSUB) under LLOCK
            /\ pc[p] = "salloc"
            /\ lsubOff' = [lsubOff EXCEPT ![supno[jcol[p]]] = nextl]
            /\ lsubLen' = [lsubLen EXCEPT ![supno[jcol[p]]] = num]
            /\ nextl' = nextl + num
            /\ jj' = [jj EXCEPT ![p] = jcol[p]]
            /\ pc' = [pc EXCEPT ![p] = "sfact"]
            /\ UNCHANGED <<sch, supno, nsuper, xsupEnd, xsupBeg, final, nextu, ispruned, pivcnt, zset, mast,
                           jcol, bcol, lbusy, kcol, ksup, fsupc, krep, covered, reading, writing, pr, sing>>
\* the columns of the relaxed supernode are factored one after the other (snode_bmod + pivotL);
\* z = TRUE iff the column has no nonzero pivot candidate
SnPivotZ(p, z) ==
            /\ pc[p] = "sfact" /\ jj[p] < jcol[p] + PSize[jcol[p]]
            /\ final' = [final EXCEPT ![jj[p]] = TRUE]
            /\ pivcnt' = [pivcnt EXCEPT ![jj[p]] = @ + 1]
            /\ sing' = [sing EXCEPT ![p] = IF z /\ (@ = 0 \/ jj[p] < @) THEN jj[p] ELSE @]
            /\ zset' = IF z THEN zset \cup {jj[p]} ELSE zset
            /\ jj' = [jj EXCEPT ![p] = @ + 1]
            /\ UNCHANGED <<sch, supno, nsuper, xsupEnd, xsupBeg, lsubOff, lsubLen, nextl, nextu, ispruned, mast, pc,
                           jcol, bcol, lbusy, kcol, ksup, fsupc, krep, covered, reading, writing, pr>>
\* every column of the supernode has been pivoted
SnFact(p) == /\ pc[p] = "sfact" /\ jj[p] = jcol[p] + PSize[jcol[p]]
             /\ pc' = [pc EXCEPT ![p] = "srel"]
             /\ UNCHANGED <<sch, lu, loc, pivcnt, zset, mast>>
SnRelease(p) == /\ pc[p] = "srel"
            /\ spin' = [c \in Cols |-> IF c \in MyCols(p) THEN 0 ELSE spin[c]]
            /\ writing' = [writing EXCEPT ![p] = {}]
            /\ pc' = [pc EXCEPT ![p] = "done"]
            /\ UNCHANGED <<lu, pstate, ukids, fb, queue, qhead, tasks, dpend, pivcnt, zset, mast,
                           jcol, bcol, lbusy, kcol, ksup, fsupc, krep, jj, covered, reading, pr, sing>>

(* ---- regular panel ---- *)
RECURSIVE Path(_, _)
Path(k, top) == IF k >= top THEN {} ELSE {k} \cup Path(TLCEval(Par[k]), top)

\* pxgstrf_mark_busy_descends
MarkBusy(p) ==
  /\ pc[p] = "mark"
  /\ LET b == bcol[p]  j == jcol[p] IN
     IF b < j
     THEN LET rel   == PType[b] = RELAXED
              fs    == IF rel THEN b ELSE xsupBeg[supno[b - 1]]
              breg  == IF rel THEN b + PSize[b] ELSE b
              first == IF rel THEN fs..(breg - 1) ELSE fs..(b - 1)
          IN /\ lbusy' = [lbusy EXCEPT ![p] = first \cup Path(breg, j)]
             /\ bcol' = [bcol EXCEPT ![p] = fs]
     ELSE /\ lbusy' = [lbusy EXCEPT ![p] = {}] /\ UNCHANGED bcol
  /\ pc' = [pc EXCEPT ![p] = "dfs"]
  /\ covered' = [covered EXCEPT ![p] = {}]
  /\ UNCHANGED <<lu, sch, jcol, kcol, ksup, fsupc, krep, jj, reading, writing, pr, sing, pivcnt, zset, mast>>

PDesc(p)   == PDescT[jcol[p]]
Visible(p) == PDesc(p) \ lbusy[p]
\* a DFS through a finished supernode reads its first subscript copy while it is
\* unpruned and the second, pruned copy afterwards; the numeric update reads copy 1
RegionOf(c) == LET s == supno[c] IN IF ispruned[xsupEnd[s] - 1] THEN <<s, 2>> ELSE <<s, 1>>

DfsBegin(p) == /\ pc[p] = "dfs"
               /\ reading' = [reading EXCEPT ![p] = {RegionOf(c) : c \in Visible(p)} \cup {<<supno[c], 1>> : c \in Visible(p)}]
               /\ pc' = [pc EXCEPT ![p] = "dfs2"]
               /\ UNCHANGED <<lu, sch, jcol, bcol, lbusy, kcol, ksup, fsupc, krep, jj, covered, writing, pr, sing, pivcnt, zset, mast>>
\* panel_dfs + the non-busy part of panel_bmod
DfsEnd(p) == /\ pc[p] = "dfs2"
             /\ reading' = [reading EXCEPT ![p] = {}]
             /\ covered' = [covered EXCEPT ![p] = Visible(p)]
             /\ kcol' = [kcol EXCEPT ![p] = bcol[p]]
             /\ pc' = [pc EXCEPT ![p] = IF bcol[p] < jcol[p] THEN "wait" ELSE "cdfs"]
             /\ jj' = [jj EXCEPT ![p] = jcol[p]]
             /\ UNCHANGED <<lu, sch, jcol, bcol, lbusy, ksup, fsupc, krep, writing, pr, sing, pivcnt, zset, mast>>

\* the pipeline wait loop of panel_bmod
WaitCol(p) == /\ pc[p] = "wait"
              /\ kcol[p] < jcol[p]
              /\ spin[kcol[p]] = 0                 \* await
              /\ ksup' = [ksup EXCEPT ![p] = supno[kcol[p]]]
              /\ fsupc' = [fsupc EXCEPT ![p] = kcol[p]]
              /\ pc' = [pc EXCEPT ![p] = "climb"]
              /\ UNCHANGED <<lu, sch, jcol, bcol, lbusy, kcol, krep, jj, covered, reading, writing, pr, sing, pivcnt, zset, mast>>
\* krep = SUPER_REP(ksupno) is an unlocked read of xsup_end: any value since the last acquire
Climb(p) == /\ pc[p] = "climb"
            /\ \E k \in kcol[p]..(xsupEnd[ksup[p]] - 1) : krep' = [krep EXCEPT ![p] = k]
            /\ kcol' = [kcol EXCEPT ![p] = Par[kcol[p]]]
            /\ pc' = [pc EXCEPT ![p] = IF Par[kcol[p]] >= jcol[p] THEN "bupd" ELSE "climbw"]
            /\ UNCHANGED <<lu, sch, jcol, bcol, lbusy, ksup, fsupc, jj, covered, reading, writing, pr, sing, pivcnt, zset, mast>>
ClimbWait(p) == /\ pc[p] = "climbw"
                /\ spin[kcol[p]] = 0               \* await
                /\ pc' = [pc EXCEPT ![p] = IF supno[kcol[p]] = ksup[p] THEN "climb" ELSE "bupd"]
                /\ UNCHANGED <<lu, sch, loc, pivcnt, zset, mast>>
BusyUpdBegin(p) ==
           /\ pc[p] = "bupd"
           /\ reading' = [reading EXCEPT ![p] =
                 IF BusyRead = "first" \/ xsupEnd[ksup[p]] - xsupBeg[ksup[p]] = 1
                 THEN {<<ksup[p], 1>>} ELSE {<<ksup[p], 1>>, <<ksup[p], 2>>}]
           /\ pc' = [pc EXCEPT ![p] = "bupd2"]
           /\ UNCHANGED <<lu, sch, jcol, bcol, lbusy, kcol, ksup, fsupc, krep, jj, covered, writing, pr, sing, pivcnt, zset, mast>>
BusyUpdEnd(p) ==
            /\ pc[p] = "bupd2"
            /\ reading' = [reading EXCEPT ![p] = {}]
            /\ covered' = [covered EXCEPT ![p] = @ \cup (fsupc[p]..krep[p])]
            /\ kcol' = [kcol EXCEPT ![p] = Par[krep[p]]]
            /\ pc' = [pc EXCEPT ![p] = IF Par[krep[p]] < jcol[p] THEN "wait" ELSE "cdfs"]
            /\ UNCHANGED <<lu, sch, jcol, bcol, lbusy, ksup, fsupc, krep, jj, writing, pr, sing, pivcnt, zset, mast>>

(* inner factorization of column jj of the panel *)
CanJoin(p) == LET c == jj[p] IN
              /\ c > 1 /\ c \notin Sbnd /\ supno[c - 1] # 0
              /\ c - xsupBeg[supno[c - 1]] < MaxSuper
ColJoin(p) == /\ pc[p] = "cdfs" /\ CanJoin(p)
              /\ LET c == jj[p]  s == supno[c - 1] IN
                 /\ supno' = [supno EXCEPT ![c] = s]
                 /\ xsupEnd' = [xsupEnd EXCEPT ![s] = c + 1]
                 /\ writing' = [writing EXCEPT ![p] = {<<s, 1>>, <<s, 2>>}]
              /\ pc' = [pc EXCEPT ![p] = "pivot"]
              /\ UNCHANGED <<sch, jcol, bcol, lbusy, kcol, ksup, fsupc, krep, jj, covered, reading,
                             nsuper, xsupBeg, final, lsubOff, lsubLen, nextl, nextu, ispruned, pr, sing, pivcnt, zset, mast>>
ColNew(p) == /\ pc[p] = "cdfs"                     \* NewNsuper under NSUPER_LOCK
             /\ nsuper' = nsuper + 1
             /\ supno' = [supno EXCEPT ![jj[p]] = nsuper + 1]
             /\ xsupBeg' = [xsupBeg EXCEPT ![nsuper + 1] = jj[p]]
             /\ xsupEnd' = [xsupEnd EXCEPT ![nsuper + 1] = jj[p] + 1]
             /\ writing' = [writing EXCEPT ![p] = {<<nsuper + 1, 1>>, <<nsuper + 1, 2>>}]
             /\ pc' = [pc EXCEPT ![p] = "calloc"]
             /\ UNCHANGED <<sch, final, lsubOff, lsubLen, nextl, nextu, ispruned, pivcnt, zset, mast,
                            jcol, bcol, lbusy, kcol, ksup, fsupc, krep, jj, covered, reading, pr, sing>>
ColAllocN(p, num) ==                               \* Glu_alloc(LSUB) under LLOCK
             /\ pc[p] = "calloc"
             /\ lsubOff' = [lsubOff EXCEPT ![supno[jj[p]]] = nextl]
             /\ lsubLen' = [lsubLen EXCEPT ![supno[jj[p]]] = num]
             /\ nextl' = nextl + num
             /\ pc' = [pc EXCEPT ![p] = "pivot"]
             /\ UNCHANGED <<sch, loc, supno, nsuper, xsupEnd, xsupBeg, final, nextu, ispruned, pivcnt, zset, mast>>
\* column_bmod + pivotL; z = TRUE iff the column has no nonzero pivot candidate
PivotZ(p, z) ==
            /\ pc[p] = "pivot"
            /\ final' = [final EXCEPT ![jj[p]] = TRUE]
            /\ pivcnt' = [pivcnt EXCEPT ![jj[p]] = @ + 1]
            /\ sing' = [sing EXCEPT ![p] = IF z /\ (@ = 0 \/ jj[p] < @) THEN jj[p] ELSE @]
            /\ zset' = IF z THEN zset \cup {jj[p]} ELSE zset
            /\ pc' = [pc EXCEPT ![p] = IF PruneOrder = "before" THEN "prune" ELSE "rel"]   \* "before": prune, then release
            /\ UNCHANGED <<sch, jcol, bcol, lbusy, kcol, ksup, fsupc, krep, jj, covered, reading, writing,
                           supno, nsuper, xsupEnd, xsupBeg, lsubOff, lsubLen, nextl, nextu, ispruned, pr, mast>>
Release(p) == /\ IF PruneOrder = "before" THEN pc[p] = "prune" /\ pr[p] = 0 ELSE pc[p] = "rel"
              /\ writing' = [writing EXCEPT ![p] = {}]
              /\ spin' = [spin EXCEPT ![jj[p]] = 0]
              /\ pc' = [pc EXCEPT ![p] = IF PruneOrder = "before" THEN "next" ELSE "prune"]
              /\ UNCHANGED <<lu, jcol, bcol, lbusy, kcol, ksup, fsupc, krep, jj, covered, reading,
                             pstate, ukids, fb, queue, qhead, tasks, pr, sing, dpend, pivcnt, zset, mast>>
\* copy_to_ucol: Glu_alloc(UCOL) under ULOCK (bookkeeping only, does not move the worker)
UAllocN(p, num) == /\ pc[p] \in {"prune", "next"}
                   /\ nextu' = nextu + num
                   /\ UNCHANGED <<sch, loc, pc, supno, nsuper, xsupEnd, xsupBeg, final, lsubOff, lsubLen, nextl, ispruned, pivcnt, zset, mast>>
\* pxgstrf_pruneL: only representatives of closed supernodes other than the column's own,
\* reached by this column, not yet pruned
PrunableBy(p) == {c \in covered[p] \cup (jcol[p]..(jj[p] - 1)) :
                     /\ supno[c] # 0 /\ xsupEnd[supno[c]] - 1 = c
                     /\ supno[c] # supno[jj[p]]
                     /\ ~ispruned[c]}
PruneBegin(p, c) ==
                /\ pc[p] = "prune" /\ pr[p] = 0 /\ c \in PrunableBy(p)
                /\ pr' = [pr EXCEPT ![p] = c]
                /\ writing' = [writing EXCEPT ![p] = @ \cup {<<supno[c], 2>>}]
                /\ UNCHANGED <<sch, lu, pc, jcol, bcol, lbusy, kcol, ksup, fsupc, krep, jj, covered, reading, sing, pivcnt, zset, mast>>
PruneEnd(p, c) ==
                /\ pc[p] = "prune" /\ pr[p] = c /\ c # 0
                /\ ispruned' = [ispruned EXCEPT ![c] = TRUE]
                /\ pr' = [pr EXCEPT ![p] = 0]
                /\ writing' = [writing EXCEPT ![p] = @ \ {<<supno[c], 2>>}]
                /\ UNCHANGED <<sch, pc, jcol, bcol, lbusy, kcol, ksup, fsupc, krep, jj, covered, reading, sing, pivcnt, zset, mast,
                               supno, nsuper, xsupEnd, xsupBeg, final, lsubOff, lsubLen, nextl, nextu>>
ColDone(p) == /\ IF PruneOrder = "before" THEN pc[p] = "next" ELSE pc[p] = "prune" /\ pr[p] = 0
              /\ IF jj[p] + 1 < jcol[p] + PSize[jcol[p]]
                 THEN /\ jj' = [jj EXCEPT ![p] = @ + 1] /\ pc' = [pc EXCEPT ![p] = "cdfs"]
                 ELSE /\ pc' = [pc EXCEPT ![p] = "done"] /\ UNCHANGED jj
              /\ UNCHANGED <<lu, sch, jcol, bcol, lbusy, kcol, ksup, fsupc, krep, covered, reading, writing, pr, sing, pivcnt, zset, mast>>
\* STATE(jcol) = DONE: an unlocked store, logged before it is made
PanelDone(p) == /\ pc[p] = "done"
                /\ dpend' = dpend \cup {jcol[p]}
                /\ pc' = [pc EXCEPT ![p] = "loop"]
                /\ UNCHANGED <<lu, loc, pstate, ukids, fb, queue, qhead, tasks, spin, pivcnt, zset, mast>>

-----------------------------------------------------------------------------
(* ---- master: join, fixupL, wrap ---- *)
AllExit == \A p \in Procs : pc[p] = "exit"
Supers  == 1..nsuper
\* order in which fixupL visits the supernodes
RECURSIVE SortBy(_, _)
SortBy(S, key) == IF S = {} THEN <<>>
                  ELSE LET m == CHOOSE x \in S : \A y \in S : key[x] <= key[y]
                       IN <<m>> \o SortBy(TLCEval(S \ {m}), key)
FixupSeq == IF FixupOrder = "storage" THEN SortBy(Supers, lsubOff)
            ELSE [i \in 1..nsuper |-> i]
JoinAll == /\ mpc = "run" /\ AllExit
           /\ mpc' = "fixup"
           /\ fixq' = IF N <= 1 THEN <<>> ELSE FixupSeq          \* fixupL returns at once when n <= 1
           /\ moved' = (IF N <= 1 THEN Supers ELSE {}) /\ fdst' = 1 /\ fixok' = TRUE
           /\ minfo' = LET S == {sing[p] : p \in Procs} \ {0}
                       IN IF S = {} THEN 0 ELSE CHOOSE m \in S : \A x \in S : m <= x
           /\ UNCHANGED <<sch, lu, pc, loc, pivcnt, zset>>
\* one step per supernode: its first subscript copy [src, src+len) is moved down to
\* [fdst, fdst+len).  The move is safe iff it goes downwards and does not overwrite the
\* first copy of a supernode that has not been moved yet.
Keep(s) == lsubLen[s] \div 2
Disjoint(a, la, b, lb) == a + la <= b \/ b + lb <= a
MoveSafe(s, dst, len) == /\ dst <= lsubOff[s]
                         /\ \A t \in Supers \ (moved \cup {s}) : Disjoint(dst, len, lsubOff[t], Keep(t))
FixupMoveL(len) ==
             /\ mpc = "fixup" /\ fixq # <<>>
             /\ LET s == Head(fixq) IN
                /\ fixok' = (fixok /\ MoveSafe(s, fdst, len))
                /\ moved' = moved \cup {s}
                /\ fdst' = fdst + len
             /\ fixq' = Tail(fixq)
             /\ UNCHANGED <<sch, lu, pc, loc, pivcnt, zset, mpc, minfo>>
FixupMove == mpc = "fixup" /\ fixq # <<>> /\ FixupMoveL(Keep(Head(fixq)))
Wrap == /\ mpc = "fixup" /\ fixq = <<>>
        /\ mpc' = "done"
        /\ UNCHANGED <<sch, lu, pc, loc, pivcnt, zset, fixq, moved, minfo, fdst, fixok>>

-----------------------------------------------------------------------------
Sizes == {2}     \* two subscript copies per supernode; actual sizes are irrelevant for the interleavings
Step(p) == \/ Loop(p) \/ Exit(p) \/ Sched(p)
           \/ SnNew(p) \/ (\E k \in Sizes : SnAllocN(p, k)) \/ (\E z \in (IF ZeroPivots THEN {FALSE, TRUE} ELSE {FALSE}) : SnPivotZ(p, z))
           \/ SnFact(p) \/ SnRelease(p)
           \/ MarkBusy(p) \/ DfsBegin(p) \/ DfsEnd(p)
           \/ WaitCol(p) \/ Climb(p) \/ ClimbWait(p) \/ BusyUpdBegin(p) \/ BusyUpdEnd(p)
           \/ ColJoin(p) \/ ColNew(p) \/ (\E k \in Sizes : ColAllocN(p, k))
           \/ (\E z \in (IF ZeroPivots THEN {FALSE, TRUE} ELSE {FALSE}) : PivotZ(p, z)) \/ Release(p)
           \/ (\E c \in Cols : PruneBegin(p, c) \/ PruneEnd(p, c))
           \/ ColDone(p) \/ PanelDone(p)
Master == JoinAll \/ FixupMove \/ Wrap
Next == (\E p \in Procs : Step(p)) \/ Master \/ (mpc = "done" /\ UNCHANGED vars)
Spec == Init /\ [][Next]_vars
FairSpec == Spec /\ (\A p \in Procs : WF_vars(Step(p))) /\ WF_vars(Master)

-----------------------------------------------------------------------------
Max2(a, b) == IF a > b THEN a ELSE b
MaxRelax == LET S == {RLT[i][2] : i \in 1..Len(RLT)} IN IF S = {} THEN 1 ELSE CHOOSE m \in S : \A x \in S : m >= x
(* Invariants.  Each is a clause of a listed property (DESIGN.md 3.2, 5). *)
Holding(p) == pc[p] \notin {"loop", "sched", "exit"}
PanelFinished(d) == pstate[d] = DONE \/ d \in dpend
SeqSet(q) == {q[i] : i \in 1..Len(q)}

TypeOK == /\ qhead \in 1..(N + 2) /\ Len(queue) <= N
          /\ tasks \in 0..N /\ nsuper \in 0..N
          /\ \A p \in Procs : jcol[p] \in {EMPTY} \cup Leads \cup {ROOT}

\* C03: no thread alters the stored rows or values of a supernode while another reads it
NoWriteWhileRead  == \A p \in Procs : \A q \in Procs : p # q => writing[p] \cap reading[q] = {}
NoWriteWhileWrite == \A p \in Procs : \A q \in Procs : p # q => writing[p] \cap writing[q] = {}
\* C03: updates use only descendants already pivoted and scaled
ReadFinal     == \A p \in Procs : pc[p] = "dfs2" => \A c \in Visible(p) : final[c] /\ spin[c] = 0
BusyReadFinal == \A p \in Procs : pc[p] = "bupd2" =>
                    /\ \A c \in fsupc[p]..krep[p] : final[c] /\ spin[c] = 0
                    /\ (fsupc[p]..krep[p]) \subseteq PDesc(p)
\* C03: each update exactly once
NoDoubleUpdate == \A p \in Procs : pc[p] = "bupd2" => (fsupc[p]..krep[p]) \cap covered[p] = {}
ExactlyOnce    == \A p \in Procs : (pc[p] = "cdfs" /\ jj[p] = jcol[p]) => covered[p] = PDesc(p)
\* C03: a panel is handed out only when its unfinished descendants form one chain of busy panels
Unfinished(l) == {d \in Leads : d \in PDescT[l] /\ ~PanelFinished(d)}
ChainShape == \A p \in Procs : (Holding(p) /\ jcol[p] \in Leads) =>
                 LET U == Unfinished(jcol[p]) IN
                 /\ \A d \in U : pstate[d] = BUSY
                 /\ \A d1 \in U : \A d2 \in U : d1 = d2 \/ d1 \in PDescT[d2] \/ d2 \in PDescT[d1]
\* ... and that chain is exactly what the thread waits for
LbusyCoversChain == \A p \in Procs : (pc[p] \in {"dfs", "dfs2"}) =>
                       \A c \in PDesc(p) : (~final[c] \/ spin[c] = 1) => c \in lbusy[p]
\* mark_busy_descends assumes that a relaxed supernode at the bottom of the chain is the last child
RelaxBottomIsLastChild ==
   \A p \in Procs : (pc[p] = "mark" /\ bcol[p] < jcol[p] /\ PType[bcol[p]] = RELAXED)
       => Par[bcol[p] + PSize[bcol[p]] - 1] = bcol[p] + PSize[bcol[p]]
MarkReadsNumbered ==
   \A p \in Procs : (pc[p] = "mark" /\ bcol[p] < jcol[p] /\ PType[bcol[p]] = REGULAR)
       => bcol[p] > 1 /\ supno[bcol[p] - 1] # 0 /\ final[bcol[p] - 1]
\* C04
TasksExact   == tasks = Cardinality({l \in Leads : pstate[l] > BUSY})
OncePerPanel == /\ \A c \in Cols : pivcnt[c] <= 1
                /\ \A p \in Procs : \A q \in Procs : (p # q /\ Holding(p) /\ Holding(q)) => jcol[p] # jcol[q]
QueueBound   == /\ Len(queue) <= N
                /\ \A i \in 1..Len(queue) : queue[i] \in Leads
                /\ \A i \in 1..Len(queue) : \A k \in 1..Len(queue) : i # k => queue[i] # queue[k]
NeverRoot    == \A p \in Procs : pc[p] # "bad" /\ jcol[p] # ROOT
\* waits are only on columns owned by a running thread (no deadlock, no lost wake-up)
WaitOnBusy   == \A p \in Procs : (pc[p] \in {"wait", "climbw"} /\ kcol[p] < jcol[p] /\ spin[kcol[p]] = 1) =>
                   \E q \in Procs : q # p /\ Holding(q) /\ kcol[p] \in PCols(jcol[q])
\* C09
TopoNumbering == \A a \in Cols : \A d \in DescT[a] : (supno[a] # 0 /\ supno[d] # 0) => supno[d] <= supno[a]
SupernodeMaps == \A s \in 1..nsuper : {c \in Cols : supno[c] = s} = xsupBeg[s]..(xsupEnd[s] - 1)
                                        /\ xsupBeg[s] < xsupEnd[s] /\ xsupEnd[s] - xsupBeg[s] <= Max2(MaxSuper, MaxRelax)
LsubDisjoint  == \A s \in 1..nsuper : \A t \in 1..nsuper :
                    (s # t /\ lsubOff[s] # 0 /\ lsubOff[t] # 0) => Disjoint(lsubOff[s], lsubLen[s], lsubOff[t], lsubLen[t])
CompactionSafe == fixok
\* C01/C06
Finished == mpc = "done" =>
              /\ \A c \in Cols : final[c] /\ spin[c] = 0 /\ pivcnt[c] = 1 /\ supno[c] # 0
              /\ tasks = 0 /\ \A l \in Leads : PanelFinished(l)
              /\ moved = Supers
              /\ minfo = (IF zset = {} THEN 0 ELSE CHOOSE m \in zset : \A x \in zset : m <= x)
Termination == <>(mpc = "done")
=============================================================================
