--------------------------- MODULE SluSolveTrace ---------------------------
(* one TLC step per recorded ?gstrs / sp_?trsv call: the kernel calls it made must be the sweep of SluSolve (SolveOK) *)
EXTENDS SluSolve, Json, IOUtils
Tr == ndJsonDeserialize(IOEnv.TRACE)
RegInit == TLCSet(1, 0)
VARIABLE l
TInit == RegInit /\ l = 1 /\ lrows = <<>> /\ urows = <<>> /\ mode = <<1, 0>> /\ pos = 0 /\ pend = <<>> /\ solved = {} /\ out = <<>> /\ bad = FALSE
TStep == l <= Len(Tr) /\ (SolveOK(Tr[l]) = TRUE) /\ l' = l + 1 /\ UNCHANGED svars
TSpec == TInit /\ [][TStep]_<<svars, l>>
Progress == TLCSet(1, IF TLCGet(1) > l THEN TLCGet(1) ELSE l)
Accepted == IF TLCGet(1) > Len(Tr) THEN TRUE
            ELSE /\ PrintT(<<"REJECTED at line", TLCGet(1), Tr[TLCGet(1)]>>) /\ FALSE
=============================================================================
