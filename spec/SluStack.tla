------------------------------- MODULE SluStack -------------------------------
(***************************************************************************)
(* The caller's workspace (lwork > 0) as the object p?memory.c makes of    *)
(* it: one buffer of `size` bytes used as a two-ended stack under one      *)
(* lock -- L/U arrays from the head (top1 grows), per-thread work arrays   *)
(* from the tail (top2 shrinks), `used` bytes in total, and a count of the *)
(* threads registered for the tail (the repair of F13).  SluMem.tla is the *)
(* abstract protocol of the workers on top of it (checked exhaustively);   *)
(* this module is the object itself, at the grain of the code's critical   *)
(* sections, and is what recorded executions are validated against         *)
(* (SluStackTrace): every Stk* event carries the complete state after the  *)
(* step, the specification recomputes it from the state before.            *)
(* HEAD = 0, TAIL = 1 as in the code.                                      *)
(***************************************************************************)
EXTENDS Naturals, Integers, Sequences, TLC

VARIABLES size, used, top1, top2, users, live     \* live: TRUE once a workspace has been set up
svars == <<size, used, top1, top2, users, live>>

StackOK == live => /\ 0 <= top1 /\ top1 <= top2 /\ top2 <= size
                   /\ used = top1 + (size - top2)         \* nothing is counted twice or forgotten
                   /\ users >= 0
Full(x) == x + used >= size                               \* StackFull(x) of the code

SInit == size = 0 /\ used = 0 /\ top1 = 0 /\ top2 = 0 /\ users = 0 /\ live = FALSE
\* p?gstrf_SetupSpace: a fresh workspace
Setup(sz) == /\ sz > 0 /\ size' = sz /\ used' = 0 /\ top1' = 0 /\ top2' = sz /\ users' = 0 /\ live' = TRUE
\* p?gstrf_MemInit for a re-factorization: the L/U arrays of the previous factorization stay at the head, the tail is empty
Reuse(sz) == /\ live /\ sz > 0 /\ size' = sz /\ top2' = sz /\ users' = 0
             /\ UNCHANGED <<top1, live>> /\ used' = top1       \* used must describe exactly the head that is kept
Alloc(end, b, ok) ==
   /\ live /\ b >= 0
   /\ ok = ~Full(b)                                            \* fails exactly when the request does not fit
   /\ IF ~ok THEN UNCHANGED svars
      ELSE /\ used' = used + b /\ UNCHANGED <<size, users, live>>
           /\ IF end = 0 THEN top1' = top1 + b /\ UNCHANGED top2
              ELSE /\ users >= 1                               \* a thread registers before it allocates from the tail (F13)
                   /\ top2' = top2 - b /\ UNCHANGED top1
Free(end, b) ==
   /\ live /\ b >= 0 /\ used' = used - b /\ UNCHANGED <<size, users, live>>
   /\ IF end = 0 THEN top1' = top1 - b /\ top1' >= 0 /\ UNCHANGED top2
      ELSE top2' = top2 + b /\ top2' <= size /\ UNCHANGED top1
\* a thread registers for (+1) or is done with (-1) the tail; the tail is released when the last one leaves
Users(incr) ==
   /\ live /\ incr \in {1, 0 - 1}
   /\ IF users + incr <= 0
      THEN /\ users' = 0 /\ top2' = size /\ used' = used - (size - top2)
      ELSE /\ users' = users + incr /\ UNCHANGED <<top2, used>>
   /\ UNCHANGED <<size, top1, live>>
\* alignment padding of an L/U array and the compaction after the factorization move the HEAD without a request of their own (the master
\* does both while no worker runs).  The tail has no such step: a block handed to a worker thread is final -- moving the tail boundary
\* in a critical section of its own, after the block was handed out, is the defect F24 (p?gstrf_WorkInit now aligns inside its block).
Adjust(end, d) ==
   /\ live /\ end = 0 /\ used' = used + d /\ UNCHANGED <<size, users, live>>
   /\ top1' = top1 + d /\ UNCHANGED top2
=============================================================================
