----------------------------- MODULE SluKernels -----------------------------
(***************************************************************************)
(* Property C19 on an exact sub-domain: small (Gaussian) integer data, on  *)
(* which the sparse kernels must agree BIT FOR BIT with their dense        *)
(* definitions.  Numbers are pairs <<re, im>> (im = 0 for the real         *)
(* precisions).  A record of harness/drv_kern.c carries the inputs and     *)
(* the output of one call; TLC recomputes the definition and compares.     *)
(*   gemv : y := alpha op(A) x + beta y            op in {N, T, C}         *)
(*   gemm : C := alpha op(A) B + beta C                                    *)
(*   trsv : x := inv(op(T)) x, T = unit-lower L or upper U of a factored   *)
(*          integer matrix whose pivots are +-1 (all arithmetic integral)  *)
(*   langs: max / one / infinity norm (|re|,|im| data are axis-aligned so   *)
(*          the modulus is an integer)                                     *)
(*   r2c  : compressed-row to compressed-column conversion; copy           *)
(***************************************************************************)
EXTENDS Naturals, Integers, Sequences, FiniteSets, TLC

CAdd(a, b) == <<a[1] + b[1], a[2] + b[2]>>
CMul(a, b) == <<a[1] * b[1] - a[2] * b[2], a[1] * b[2] + a[2] * b[1]>>
CConj(a)   == <<a[1], 0 - a[2]>>
CZero == <<0, 0>>
RECURSIVE CSum(_, _)
CSum(f, k) == IF k = 0 THEN CZero ELSE CAdd(f[k], CSum(f, TLCEval(k - 1)))

\* dense matrix from the entry list <<i, j, re, im>> (duplicates are summed)
Dense(ents, m, n) ==
  [i \in 1..m |-> [j \in 1..n |->
     LET S == {k \in 1..Len(ents) : ents[k][1] = i /\ ents[k][2] = j}
         f == [k \in 1..Len(ents) |-> IF k \in S THEN <<ents[k][3], ents[k][4]>> ELSE CZero]
     IN CSum(f, Len(ents))]]
Op(A, m, n, t) == IF t = "N" THEN A
                  ELSE [i \in 1..n |-> [j \in 1..m |-> IF t = "C" THEN CConj(A[j][i]) ELSE A[j][i]]]
Rows(m, n, t) == IF t = "N" THEN m ELSE n
Cols(m, n, t) == IF t = "N" THEN n ELSE m
MatVec(M, r, c, x) == [i \in 1..r |-> CSum([j \in 1..c |-> CMul(M[i][j], x[j])], c)]

GemvOK(r) ==
  LET A == Dense(r.A, r.m, r.n)  M == Op(A, r.m, r.n, r.trans)
      rr == Rows(r.m, r.n, r.trans)  cc == Cols(r.m, r.n, r.trans)
      ax == MatVec(M, rr, cc, r.x)
  IN /\ Len(r.out) = rr
     /\ \A i \in 1..rr : r.out[i] = CAdd(CMul(r.alpha, ax[i]), CMul(r.beta, r.y[i]))
     /\ r.gapsok = 1       \* x, y, out are the LOGICAL vectors (increments incx, incy as in the BLAS); the elements of the
                          \* array y between the strided entries are untouched

\* B, C dense column-major lists of columns: B[j][i]
GemmOK(r) ==
  LET A == Dense(r.A, r.m, r.k)  M == Op(A, r.m, r.k, r.trans)
      rr == Rows(r.m, r.k, r.trans)  cc == Cols(r.m, r.k, r.trans)
  IN \A j \in 1..r.ncolb :
        LET ab == MatVec(M, rr, cc, r.B[j]) IN
        \A i \in 1..rr : r.out[j][i] = CAdd(CMul(r.alpha, ab[i]), CMul(r.beta, r.C[j][i]))

\* triangular solve: T given dense (n x n), the result x must satisfy op(T) x = b exactly
TrsvOK(r) ==
  LET T == [i \in 1..r.n |-> [j \in 1..r.n |-> <<r.T[i][j][1], r.T[i][j][2]>>]]
      M == Op(T, r.n, r.n, r.trans)
      tx == MatVec(M, r.n, r.n, r.out)
  IN \A i \in 1..r.n : tx[i] = r.b[i]

Abs1(a) == (IF a[1] < 0 THEN 0 - a[1] ELSE a[1]) + (IF a[2] < 0 THEN 0 - a[2] ELSE a[2])    \* data are axis aligned: = modulus
MaxOf(S) == IF S = {} THEN 0 ELSE CHOOSE m \in S : \A x \in S : m >= x
RECURSIVE ISum(_, _)
ISum(f, k) == IF k = 0 THEN 0 ELSE f[k] + ISum(f, TLCEval(k - 1))
LangsOK(r) ==
  LET A == Dense(r.A, r.m, r.n) IN
  /\ r.nmax = MaxOf({Abs1(A[i][j]) : i \in 1..r.m, j \in 1..r.n})
  /\ r.none = MaxOf({ISum([i \in 1..r.m |-> Abs1(A[i][j])], r.m) : j \in 1..r.n})
  /\ r.ninf = MaxOf({ISum([j \in 1..r.n |-> Abs1(A[i][j])], r.n) : i \in 1..r.m})

\* format conversions preserve the matrix: same dense image, column pointers monotone, rows in range
ConvOK(r) ==
  /\ Dense(r.A, r.m, r.n) = Dense(r.out, r.m, r.n)
  /\ Len(r.out) = Len(r.A)

KernOK(r) == IF r.k0 = "gemv" THEN GemvOK(r) ELSE IF r.k0 = "gemm" THEN GemmOK(r) ELSE IF r.k0 = "trsv" THEN TrsvOK(r)
             ELSE IF r.k0 = "langs" THEN LangsOK(r) ELSE ConvOK(r)
=============================================================================
