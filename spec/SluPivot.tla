------------------------------ MODULE SluPivot ------------------------------
(***************************************************************************)
(* The documented pivot policy of p?gstrf_pivotL (property C02), stated    *)
(* over the abstract inputs of one elimination step:                       *)
(*   user  class of the row the caller asked for (usepr = YES), else 0     *)
(*   diag  class of the row holding the ORIGINAL diagonal entry of the     *)
(*         column (row index = original column index of the column)        *)
(*   class 0 = not a candidate (row already pivoted / no such row)         *)
(*         1 = candidate, but exactly zero or below u * max|candidates|    *)
(*         2 = eligible: nonzero and >= u * max|candidates|                *)
(*         3 = within rounding of the threshold (the oracle cannot decide) *)
(*   choice bit 1 = the diagonal row was taken, bit 2 = the user's row     *)
(*   mmax  1000 * max(1, max multiplier of the step) as seen in L          *)
(* Policy: the user's row if eligible; else the diagonal row if eligible;  *)
(* else a row of maximal magnitude.  Every multiplier obeys |l| <= 1/u.    *)
(* A request to reuse a row order is abandoned FOR THE REST OF THE RUN at  *)
(* the first column whose requested row is not eligible (p?gstrf_pivotL    *)
(* stores usepr = NO in the shared options; which columns come "after" is  *)
(* schedule dependent with several threads): an eligible requested row may *)
(* be passed over only if the request failed at some column of this run.   *)
(* The harness reconstructs (diag, user, choice, mmax) for every column    *)
(* from the returned factors; TLC evaluates StepOK on each of them.        *)
(***************************************************************************)
EXTENDS Naturals, Integers, Sequences

Bit(x, b) == (x \div b) % 2 = 1
\* the policy when no request is in force for this column
NoRequest(diag, choice) ==
    IF diag = 2 THEN Bit(choice, 1)
    ELSE IF diag = 3 THEN TRUE
    ELSE ~Bit(choice, 1)                                            \* some other row of maximal magnitude
StepOKWith(s, u1000, abandoned) ==
  LET diag == s[1]  user == s[2]  choice == s[3] IN
  /\ diag \in 0..3 /\ user \in 0..3 /\ choice \in 0..3
  /\ IF user = 2 THEN Bit(choice, 2) \/ (abandoned /\ NoRequest(diag, choice))
     ELSE IF user = 3 THEN TRUE
     ELSE /\ ~Bit(choice, 2) \/ (Bit(choice, 1) /\ diag >= 2)      \* an ineligible user row is not taken
          /\ NoRequest(diag, choice)
StepOK(s, u1000) == StepOKWith(s, u1000, FALSE)
\* the abstract policy is total and deterministic on decided inputs
PolicyTotal == \A d \in 0..2 : \A us \in 0..2 :
                 \E c \in 0..3 : StepOK(<<d, us, c>>, 1000)
ASSUME PolicyTotal
\* no request (user = 0 everywhere) or a request that failed somewhere: abandoned from then on
Abandoned(steps) == \E k \in 1..Len(steps) : steps[k][2] # 2
AllStepsOK(steps, u1000) == \A k \in 1..Len(steps) : StepOKWith(steps[k], u1000, Abandoned(steps))
=============================================================================
