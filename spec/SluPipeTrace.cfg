CONSTANTS FixupOrder = "storage"  BusyRead = "second"  PruneOrder = "after"  ZeroPivots = TRUE
CONSTANT N <- TN
CONSTANT P <- TP
CONSTANT PanelSize <- TPS
CONSTANT Relax <- TRL
CONSTANT MaxSuper <- TMS
CONSTANT Par <- TPar
CONSTANT Sbnd <- TSbnd
SPECIFICATION TSpec
INVARIANTS TypeOK NoWriteWhileRead NoWriteWhileWrite ReadFinal BusyReadFinal NoDoubleUpdate ExactlyOnce
 ChainShape LbusyCoversChain RelaxBottomIsLastChild MarkReadsNumbered TasksExact OncePerPanel QueueBound NeverRoot
 WaitOnBusy TopoNumbering SupernodeMaps LsubDisjoint CompactionSafe Finished SlotBound
CONSTRAINT Progress
POSTCONDITION Accepted
CHECK_DEADLOCK FALSE
