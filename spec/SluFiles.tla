------------------------------- MODULE SluFiles -------------------------------
(***************************************************************************)
(* Property C20: a reader returns exactly the matrix a well-formed file    *)
(* encodes.  A case is an abstract matrix (dimensions, the entries         *)
(* <<i, j, re, im>> in file order, values as integers scaled by 1024),     *)
(* its symmetry class, and the arrays the real reader returned for a       *)
(* rendering of it in Harwell-Boeing, Rutherford-Boeing or the library's   *)
(* column-list text format (rendered by the harness with varying edit      *)
(* descriptors, D/E exponents, optional right-hand-side header).           *)
(* ReaderOK: same dimensions, same count, column-compressed arrays that    *)
(* represent exactly the same entries with exactly the printed values;     *)
(* for a symmetric file the represented matrix is the expansion.           *)
(***************************************************************************)
EXTENDS Naturals, Integers, Sequences, FiniteSets, TLC
Ent(c) == {<<c.ent[k][1], c.ent[k][2], c.ent[k][3], c.ent[k][4]>> : k \in 1..Len(c.ent)}
Expand(E, sym) == IF sym = "S" THEN E \cup {<<e[2], e[1], e[3], e[4]>> : e \in {x \in E : x[1] # x[2]}}
                  ELSE IF sym = "Z" THEN E \cup {<<e[2], e[1], 0 - e[3], 0 - e[4]>> : e \in {x \in E : x[1] # x[2]}}
                  ELSE E
\* entries represented by the returned column-compressed arrays (0-based in the code)
Returned(o) == {<<o.rowind[k] + 1, CHOOSE j \in 1..o.ncol : o.colptr[j] < k /\ k <= o.colptr[j + 1], o.vals[k][1], o.vals[k][2]>> : k \in 1..o.nnz}
ArraysOK(o) == /\ Len(o.colptr) = o.ncol + 1 /\ o.colptr[1] = 0 /\ o.colptr[o.ncol + 1] = o.nnz
               /\ \A j \in 1..o.ncol : o.colptr[j] <= o.colptr[j + 1]
               /\ Len(o.rowind) = o.nnz /\ Len(o.vals) = o.nnz
               /\ \A k \in 1..o.nnz : o.rowind[k] >= 0 /\ o.rowind[k] < o.nrow /\ o.vals[k][3] = 1
ReaderOK(c) ==
  LET want == Expand(Ent(c), c.sym) IN
  /\ c.out.nrow = c.m /\ c.out.ncol = c.n
  /\ ArraysOK(c.out)
  /\ c.out.nnz = Cardinality(want)
  /\ Returned(c.out) = want
=============================================================================
