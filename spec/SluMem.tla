------------------------------- MODULE SluMem -------------------------------
(***************************************************************************)
(* The caller-supplied workspace of p?gstrf (lwork > 0) as the two-ended   *)
(* stack it is (p?memory.c): L/U arrays are carved from the head           *)
(* (top1 grows), the per-thread work arrays from the tail (top2 shrinks),  *)
(* under one lock.  Workers start and finish in any order.  Every worker   *)
(* (p?gstrf_WorkInit) registers, takes its integer array, then its real    *)
(* array, which must start at an address that is a multiple of 8.          *)
(* Unit = 4 bytes; the buffer starts Off units past an 8-byte boundary     *)
(* (Off = 1: a workspace carved out of an int pool).                       *)
(*                                                                         *)
(* TailPolicy = "last": the tail is released when the last registered      *)
(* worker is done (the code after the F13 repair); "first": when the first *)
(* worker leaves (original code).                                          *)
(* AlignPolicy = "inside": ONE request of DNeed + 2 units, the array is    *)
(* aligned upwards inside the block (the code after the F24 repair);       *)
(* "second": request DNeed units, then -- in a SECOND critical section --  *)
(* move the pointer down to the boundary and lower top2 (original code).   *)
(* TLC checks the invariants for every interleaving; with "first" it finds *)
(* the overlap of F13, with "second" and Off = 1 the overlap of F24.       *)
(* A request that does not fit returns NULL and the worker gives up        *)
(* (documented: info > n).                                                 *)
(***************************************************************************)
EXTENDS Naturals, Integers, FiniteSets, Sequences, TLC
CONSTANTS P, Size, HeadNeed, INeed, DNeed, Off, TailPolicy, AlignPolicy
Procs == 1..P
VARIABLES top1, top2, used, users, wpc, ilo, ihi, dlo, dhi
vars == <<top1, top2, used, users, wpc, ilo, ihi, dlo, dhi>>

Zero == [p \in Procs |-> 0]
Init == /\ top1 = HeadNeed /\ top2 = Size /\ used = HeadNeed /\ users = 0
        /\ wpc = [p \in Procs |-> "start"] /\ ilo = Zero /\ ihi = Zero /\ dlo = Zero /\ dhi = Zero

Misaligned(idx) == (Off + idx) % 2 = 1            \* the address of unit idx is not a multiple of 8
\* StackFull(x) == x + used >= size
Full(x) == x + used >= Size
Register(p) == /\ wpc[p] = "start"
               /\ users' = users + 1
               /\ wpc' = [wpc EXCEPT ![p] = "ialloc"]
               /\ UNCHANGED <<top1, top2, used, ilo, ihi, dlo, dhi>>
Release(p) == LET u == users - 1 IN
              IF (TailPolicy = "first") \/ u <= 0
              THEN /\ used' = used - (Size - top2) /\ top2' = Size
                   /\ users' = (IF u < 0 THEN 0 ELSE u) /\ UNCHANGED <<top1, ilo, ihi, dlo, dhi>>
              ELSE users' = u /\ UNCHANGED <<top1, top2, used, ilo, ihi, dlo, dhi>>
Fail(p) == wpc' = [wpc EXCEPT ![p] = "failed"] /\ Release(p)
\* ?user_malloc(isize, TAIL): one critical section
AllocI(p) == /\ wpc[p] = "ialloc"
             /\ IF Full(INeed) THEN Fail(p)
                ELSE /\ top2' = top2 - INeed /\ used' = used + INeed
                     /\ ilo' = [ilo EXCEPT ![p] = top2 - INeed] /\ ihi' = [ihi EXCEPT ![p] = top2]
                     /\ wpc' = [wpc EXCEPT ![p] = "dalloc"] /\ UNCHANGED <<top1, users, dlo, dhi>>
\* the real array
AllocD(p) ==
    /\ wpc[p] = "dalloc"
    /\ IF AlignPolicy = "inside"
       THEN IF Full(DNeed + 2) THEN Fail(p)
            ELSE LET b == top2 - (DNeed + 2)  a == IF Misaligned(b) THEN b + 1 ELSE b IN
                 /\ top2' = b /\ used' = used + DNeed + 2
                 /\ dlo' = [dlo EXCEPT ![p] = a] /\ dhi' = [dhi EXCEPT ![p] = a + DNeed]
                 /\ wpc' = [wpc EXCEPT ![p] = "run"] /\ UNCHANGED <<top1, users, ilo, ihi>>
       ELSE IF Full(DNeed) THEN Fail(p)
            ELSE LET b == top2 - DNeed IN
                 /\ top2' = b /\ used' = used + DNeed
                 \* the pointer is moved down to the boundary at once (DoubleAlign, then one double back) ...
                 /\ dlo' = [dlo EXCEPT ![p] = IF Misaligned(b) THEN b - 1 ELSE b]
                 /\ dhi' = [dhi EXCEPT ![p] = (IF Misaligned(b) THEN b - 1 ELSE b) + DNeed]
                 /\ wpc' = [wpc EXCEPT ![p] = IF Misaligned(b) THEN "adjust" ELSE "run"] /\ UNCHANGED <<top1, users, ilo, ihi>>
\* ... and the stack learns about it in a second critical section, without a room test
Adjust(p) == /\ wpc[p] = "adjust"
             /\ top2' = top2 - 1 /\ used' = used + 1
             /\ wpc' = [wpc EXCEPT ![p] = "run"] /\ UNCHANGED <<top1, users, ilo, ihi, dlo, dhi>>
Finish(p) == /\ wpc[p] = "run"
             /\ wpc' = [wpc EXCEPT ![p] = "done"]
             /\ Release(p)
Next == (\E p \in Procs : Register(p) \/ AllocI(p) \/ AllocD(p) \/ Adjust(p) \/ Finish(p))
        \/ ((\A p \in Procs : wpc[p] \in {"done", "failed"}) /\ UNCHANGED vars)
Spec == Init /\ [][Next]_vars

\* a worker owns its integer array from AllocI on and its real array from AllocD on (it uses them once WorkInit has returned)
HasI == {p \in Procs : wpc[p] \in {"dalloc", "adjust", "run"}}
HasD == {p \in Procs : wpc[p] \in {"adjust", "run"}}
Arrays == {<<ilo[p], ihi[p]>> : p \in HasI} \cup {<<dlo[p], dhi[p]>> : p \in HasD}
StackOK == /\ 0 <= top1 /\ top1 <= top2 /\ top2 <= Size
           /\ used = top1 + (Size - top2)
\* work arrays of running workers are pairwise disjoint, inside the buffer and above the L/U arrays
WorkDisjoint == /\ \A x \in Arrays : \A y \in Arrays : x # y => (x[2] <= y[1] \/ y[2] <= x[1])
                /\ Cardinality(Arrays) = Cardinality(HasI) + Cardinality(HasD)
WorkInside == \A x \in Arrays : top1 <= x[1] /\ x[2] <= Size /\ ((\A p \in Procs : wpc[p] # "adjust") => x[1] >= top2)
WorkAligned == \A p \in HasD : ~Misaligned(dlo[p])
AllReleased == (\A p \in Procs : wpc[p] \in {"done", "failed"}) => top2 = Size /\ users = 0
=============================================================================
