------------------------------- MODULE SluMem -------------------------------
(***************************************************************************)
(* The caller-supplied workspace of p?gstrf (lwork > 0) as the two-ended   *)
(* stack it is (p?memory.c): L/U arrays are carved from the head           *)
(* (top1 grows), the per-thread work arrays from the tail (top2 shrinks),  *)
(* under one lock.  Workers start and finish in any order.                 *)
(* TailPolicy = "last": the tail is released when the last registered      *)
(* worker is done (the code after the F13 repair); "first": when the first *)
(* worker leaves (original code).  TLC checks the invariants for every     *)
(* interleaving; with "first" it finds the overlap of F13.                 *)
(* Sizes are abstract units; a request that does not fit returns NULL and  *)
(* the worker gives up (documented: info > n).                             *)
(***************************************************************************)
EXTENDS Naturals, Integers, FiniteSets, Sequences, TLC
CONSTANTS P, Size, HeadNeed, WorkNeed, TailPolicy
Procs == 1..P
VARIABLES top1, top2, used, users, wpc, wlo, whi
vars == <<top1, top2, used, users, wpc, wlo, whi>>

Init == /\ top1 = HeadNeed /\ top2 = Size /\ used = HeadNeed /\ users = 0
        /\ wpc = [p \in Procs |-> "start"] /\ wlo = [p \in Procs |-> 0] /\ whi = [p \in Procs |-> 0]

\* StackFull(x) == x + used >= size
Full(x) == x + used >= Size
Register(p) == /\ wpc[p] = "start"
               /\ users' = users + 1
               /\ wpc' = [wpc EXCEPT ![p] = "alloc"]
               /\ UNCHANGED <<top1, top2, used, wlo, whi>>
Release(p) == LET u == users - 1 IN
              IF (TailPolicy = "first") \/ u <= 0
              THEN /\ used' = used - (Size - top2) /\ top2' = Size
                   /\ users' = (IF u < 0 THEN 0 ELSE u) /\ UNCHANGED <<top1, wlo, whi>>
              ELSE users' = u /\ UNCHANGED <<top1, top2, used, wlo, whi>>
Alloc(p) == /\ wpc[p] = "alloc"
            /\ IF Full(WorkNeed)
               THEN /\ wpc' = [wpc EXCEPT ![p] = "failed"]              \* returns isize + n
                    /\ Release(p)
               ELSE /\ top2' = top2 - WorkNeed /\ used' = used + WorkNeed
                    /\ wlo' = [wlo EXCEPT ![p] = top2 - WorkNeed] /\ whi' = [whi EXCEPT ![p] = top2]
                    /\ wpc' = [wpc EXCEPT ![p] = "run"] /\ UNCHANGED <<top1, users>>
Finish(p) == /\ wpc[p] = "run"
             /\ wpc' = [wpc EXCEPT ![p] = "done"]
             /\ Release(p)
Next == (\E p \in Procs : Register(p) \/ Alloc(p) \/ Finish(p)) \/ ((\A p \in Procs : wpc[p] \in {"done", "failed"}) /\ UNCHANGED vars)
Spec == Init /\ [][Next]_vars

Running == {p \in Procs : wpc[p] = "run"}
StackOK == /\ 0 <= top1 /\ top1 <= top2 /\ top2 <= Size
           /\ used = top1 + (Size - top2)
\* work arrays of running workers are pairwise disjoint, inside the buffer and above the L/U arrays
WorkDisjoint == \A p \in Running : \A q \in Running : p # q => (whi[p] <= wlo[q] \/ whi[q] <= wlo[p])
WorkInside == \A p \in Running : top1 <= wlo[p] /\ whi[p] <= Size /\ wlo[p] >= top2
AllReleased == (\A p \in Procs : wpc[p] \in {"done", "failed"}) => top2 = Size /\ users = 0
=============================================================================
