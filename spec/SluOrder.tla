------------------------------ MODULE SluOrder ------------------------------
(***************************************************************************)
(* Declarative definitions for the preprocessing step (properties C10,     *)
(* C05 column-count clause, C16 symmetric bound), evaluated by TLC on the  *)
(* records that harness/drv_order.c projects from the real get_perm_c and  *)
(* sp_colorder ("specification as oracle"):                                *)
(*   - every ordering is a bijection;                                      *)
(*   - A*Pc is a view of A: column Pc(j) of AC is column j of A, sharing   *)
(*     A's arrays, which stay bit-identical;                               *)
(*   - the caller's ordering is changed only by composing it with a        *)
(*     postorder of the column elimination tree;                           *)
(*   - the reported etree is the elimination tree of (A*Pc)^T (A*Pc)       *)
(*     (of Pc (A+A^T) Pc^T in symmetric mode) and every subtree is a       *)
(*     contiguous range ending at its root;                                *)
(*   - colcnt/part describe a partition of the columns into consecutive    *)
(*     blocks, and colcnt dominates |L(:,j)| for EVERY pivot sequence      *)
(*     (symbolic elimination with row merging), resp. for diagonal         *)
(*     pivoting in symmetric mode.                                         *)
(* Records are 1-based: pat = list of <<row, col>>, permutations map the   *)
(* original column to its position, etree[j] = parent (n+1 = root).        *)
(***************************************************************************)
EXTENDS Naturals, Integers, Sequences, FiniteSets, TLC

IsPermSeq(f, n) == /\ Len(f) = n /\ \A i \in 1..n : f[i] \in 1..n
                   /\ \A i \in 1..n : \A k \in 1..n : i # k => f[i] # f[k]
Inverse(f, n) == [v \in 1..n |-> CHOOSE i \in 1..n : f[i] = v]
MinOf(S) == CHOOSE m \in S : \A x \in S : m <= x

PatSet(r) == {<<r.pat[i][1], r.pat[i][2]>> : i \in 1..Len(r.pat)}
ColsPermuted(P, pc) == {<<e[1], pc[e[2]]>> : e \in P}              \* pattern of A*Pc
SymPermuted(P, pc)  == {<<pc[e[1]], pc[e[2]]>> : e \in P}          \* pattern of Pc A Pc^T
ColGraph(P, n) == {e \in (1..n) \X (1..n) : e[1] # e[2] /\ \E a \in P : \E b \in P : a[1] = b[1] /\ a[2] = e[1] /\ b[2] = e[2]}
SymGraph(P, n) == {e \in (1..n) \X (1..n) : e[1] # e[2] /\ (<<e[1], e[2]>> \in P \/ <<e[2], e[1]>> \in P)}

\* elimination tree of an undirected graph on 1..n (vertices eliminated in order)
RECURSIVE Elim(_, _, _, _)
Elim(G, k, n, par) ==
   IF k > n THEN par
   ELSE LET hi == {j \in (k + 1)..n : <<k, j>> \in G}
            p  == IF hi = {} THEN n + 1 ELSE MinOf(hi)
            G2 == G \cup {e \in hi \X hi : e[1] # e[2]}
        IN Elim(TLCEval(G2), TLCEval(k + 1), n, TLCEval([par EXCEPT ![k] = p]))
ETree(G, n) == Elim(G, 1, n, [j \in 1..n |-> n + 1])

RECURSIVE IsAncOf(_, _, _, _)
IsAncOf(par, a, d, n) == IF d >= a THEN d = a ELSE IsAncOf(par, a, TLCEval(par[d]), n)
DescOf(par, a, n) == {d \in 1..n : d < a /\ IsAncOf(par, a, d, n)}
PostorderedTree(par, n) ==
   /\ \A j \in 1..n : par[j] > j /\ par[j] <= n + 1
   /\ \A a \in 1..n : LET D == DescOf(par, a, n) IN D = (a - Cardinality(D))..(a - 1)

PartitionOK(part, n) ==
   LET Starts == {j \in 1..n : part[j] # 0} IN
   /\ (n >= 1 => 1 \in Starts)
   /\ \A j \in Starts : /\ part[j] >= 1 /\ j + part[j] <= n + 1
                        /\ (j + part[j] <= n => (j + part[j]) \in Starts)
                        /\ \A i \in (j + 1)..(j + part[j] - 1) : part[i] = 0

(* symbolic elimination with row merging: all pivot sequences *)
RowsOf(P, n) == [r \in 1..n |-> {e[2] : e \in {x \in P : x[1] = r}}]
RECURSIVE AllSeqOK(_, _, _, _, _)
AllSeqOK(rows, left, k, n, cnt) ==
   IF k > n THEN TRUE
   ELSE LET cand == {r \in left : k \in rows[r]} IN
        IF cand = {} THEN TRUE                     \* structurally singular from here on: no claim
        ELSE /\ Cardinality(cand) <= cnt[k]
             /\ \A r \in cand :
                   AllSeqOK(TLCEval([q \in 1..n |-> IF q \in cand /\ q # r THEN (rows[q] \cup rows[r]) \ {k} ELSE rows[q]]),
                            TLCEval(left \ {r}), TLCEval(k + 1), n, cnt)
ColcntDominates(P, n, cnt) == AllSeqOK(RowsOf(P, n), 1..n, 1, n, cnt)
\* symmetric mode, diagonal pivots only (row k pivots column k)
RECURSIVE DiagSeqOK(_, _, _, _)
DiagSeqOK(rows, k, n, cnt) ==
   IF k > n THEN TRUE
   ELSE LET cand == {r \in k..n : k \in rows[r]} IN
        /\ Cardinality(cand) <= cnt[k]
        /\ DiagSeqOK(TLCEval([q \in 1..n |-> IF q \in cand /\ q # k THEN (rows[q] \cup rows[k]) \ {k} ELSE rows[q]]), TLCEval(k + 1), n, cnt)

OrderOK(r) ==
  LET n == r.n  P == PatSet(r) IN
  /\ r.valid = 1 /\ IsPermSeq(r.pcin, n)                    \* C10: every ordering is a bijection
  /\ IsPermSeq(r.pcout, n)
  /\ r.shares = 1 /\ r.Aunch = 1 /\ r.acn = n /\ r.acnnz = Len(r.pat)
  /\ \A j \in 1..n : r.view[r.pcout[j]] = j                  \* column Pc(j) of A*Pc is column j of A
  /\ LET G  == IF r.sym = 1 THEN SymGraph(SymPermuted(P, r.pcout), n) ELSE ColGraph(ColsPermuted(P, r.pcout), n)
         G0 == IF r.sym = 1 THEN SymGraph(SymPermuted(P, r.pcin), n) ELSE ColGraph(ColsPermuted(P, r.pcin), n)
         T  == ETree(G, n)
         T0 == ETree(G0, n)
         inv == Inverse(r.pcin, n)
         post == [i \in 1..n |-> r.pcout[inv[i]]]
     IN /\ \A j \in 1..n : r.etree[j] = T[j]                 \* the reported etree is the etree of the final A*Pc
        /\ PostorderedTree(r.etree, n)
        /\ \A k \in 1..n : r.etree[post[k]] = (IF T0[k] = n + 1 THEN n + 1 ELSE post[T0[k]])   \* post is a relabelling of the old tree
  /\ PartitionOK(r.part, n)

\* structural rank n: some assignment of distinct rows to the columns lies inside the pattern
RECURSIVE Match(_, _, _, _)
Match(P, n, j, used) == IF j > n THEN TRUE
                        ELSE \E r \in (1..n) \ used : <<r, j>> \in P /\ Match(P, n, TLCEval(j + 1), TLCEval(used \cup {r}))
StructNonsing(r) == Match(PatSet(r), r.n, 1, {})
\* the claim is made for structurally nonsingular patterns; for structurally singular ones the counts
\* returned by qrnzcnt can even be negative (recorded finding F3)
BoundOK(r) ==
  LET n == r.n  P == PatSet(r) IN
  IF r.sym = 1 THEN DiagSeqOK(RowsOf({e \in SymPermuted(P, r.pcout) \cup {<<x[2], x[1]>> : x \in SymPermuted(P, r.pcout)} : TRUE}, n), 1, n, r.colcnt)
  ELSE ColcntDominates(ColsPermuted(P, r.pcout), n, r.colcnt)
=============================================================================
