/* Runtime of the verification harness (see verif_rt.h). */
#define _GNU_SOURCE
#include <stdio.h>
#include <stdlib.h>
#include <string.h>
#include <stdarg.h>
#include <stdatomic.h>
#include <pthread.h>
#include <sched.h>
#include <unistd.h>
#include <dirent.h>
#include "slu_mt_ddefs.h"     /* int_t */
#include "verif_rt.h"

/* ------------------------------------------------------------------ real allocator */
extern void *__real_malloc(size_t) __attribute__((weak));
extern void  __real_free(void *) __attribute__((weak));
extern void *__real_calloc(size_t, size_t) __attribute__((weak));
static void *r_malloc(size_t n) { return __real_malloc ? __real_malloc(n) : malloc(n); }
static void  r_free(void *p)    { if (__real_free) __real_free(p); else free(p); }

/* ------------------------------------------------------------------ sp_ienv */
/* generous fill estimates (multiples of nnz(A)) so that small dense-ish test matrices never run out by accident */
long vrt_ienv[9] = {0, 8, 6, 100, 200, 100, -200, -200, -100};
int_t sp_ienv(int_t ispec)
{
    if (ispec >= 1 && ispec <= 8) return (int_t) vrt_ienv[ispec];
    return 0;
}

/* ------------------------------------------------------------------ event log */
#define MAXARGS 8
typedef struct {
    const char *name; char *raw; int p, nargs, nlist; long a[MAXARGS]; long *l;
} ev_t;
static ev_t *EV; static long EVCAP = 0; static atomic_long SEQ; static atomic_int OVER;
static int LOG_ON = 0; static atomic_long IDLE; static const char *STREAM = 0;
static __thread int self_pnum = -1;
static __thread int pending_loop = 0;
static int PERT = 0; static unsigned PSEED = 1; static __thread unsigned prs = 0;
static char FOCUS[32]; static int FOCUS_PCT = 0, FOCUS_US = 0;

int  slu_verif_self(void) { return self_pnum; }
void slu_verif_set_self(int p) { self_pnum = p; pending_loop = 0; prs = 0; }

/* With VERIF_STREAM=<file> in the environment an unmodified program linked with this runtime (the
   repository's own test drivers and examples) records every factorization it performs: logging is
   switched on at start-up and the events of each factorization are appended to the file at its Wrap. */
__attribute__((constructor)) static void vrt_autostart(void)
{
    const char *f = getenv("VERIF_STREAM");
    if (f && *f) { STREAM = f; vrt_log_enable(1); if (getenv("VERIF_PERTURB")) vrt_perturb(atoi(getenv("VERIF_PERTURB")), 12345u); }
}
void vrt_log_enable(int on)
{
    if (on && !EV) {
	const char *c = getenv("VERIF_EVCAP");
	EVCAP = c ? atol(c) : (1L << 21);
	EV = (ev_t *) r_malloc(EVCAP * sizeof(ev_t));
	memset(EV, 0, EVCAP * sizeof(ev_t));
    }
    LOG_ON = on;
}
void vrt_log_reset(void)
{
    long n = atomic_load(&SEQ), i;
    if (n > EVCAP) n = EVCAP;
    for (i = 0; i < n; ++i) { if (EV[i].l) r_free(EV[i].l); if (EV[i].raw) r_free(EV[i].raw); }
    if (EV) memset(EV, 0, n * sizeof(ev_t));
    atomic_store(&SEQ, 0); atomic_store(&OVER, 0); atomic_store(&IDLE, 0);
}
long vrt_log_count(void) { long n = atomic_load(&SEQ); return n > EVCAP ? EVCAP : n; }
int  vrt_log_overflowed(void) { return atomic_load(&OVER); }
long vrt_idle_polls(void) { return atomic_load(&IDLE); }
void vrt_perturb(int percent, unsigned seed) { PERT = percent; PSEED = seed ? seed : 1; }
/* widen the window after one kind of event: sleep usec with probability pct after each event called name */
void vrt_perturb_focus(const char *name, int pct, int usec) { strncpy(FOCUS, name ? name : "", 31); FOCUS_PCT = pct; FOCUS_US = usec; }

static void perturb(int p)
{
    unsigned r;
    if (!PERT) return;
    if (!prs) prs = PSEED * 2654435761u + (unsigned)(p + 2) * 40503u + 1u;
    prs = prs * 1103515245u + 12345u;
    r = (prs >> 16) % 100;
    if (r < (unsigned) PERT) sched_yield();
    else if (r < (unsigned)(PERT + PERT / 3 + 1)) usleep((prs >> 8) % 200);
}

static void emit(const char *name, int p, int nargs, const long *args,
		 const int_t *list, long nlist)
{
    long s = atomic_fetch_add(&SEQ, 1), i;
    ev_t *x;
    if (s >= EVCAP) { atomic_store(&OVER, 1); return; }
    x = &EV[s];
    x->name = name; x->p = p; x->raw = 0;
    x->nargs = nargs > MAXARGS ? MAXARGS : nargs;
    for (i = 0; i < x->nargs; ++i) x->a[i] = args[i];
    x->nlist = (int) nlist; x->l = 0;
    if (nlist > 0) {
	x->l = (long *) r_malloc(nlist * sizeof(long));
	for (i = 0; i < nlist; ++i) x->l[i] = (long) list[i];
    }
}

void slu_verif_ev(const char *name, int pnum, int nargs, const long *args,
		  const int_t *list, int_t nlist)
{
    static const long minus1 = -1;
    if (!LOG_ON) { perturb(pnum); return; }
    if (name[0] == 'L' && !strcmp(name, "Loop")) {
	if (args[0] == -1) { pending_loop = 1; perturb(pnum); return; }   /* idle poll: decided at @Take / Sched */
    } else if (name[0] == '@') {
	if (pending_loop) { emit("Loop", pnum, 1, &minus1, 0, 0); pending_loop = 0; }
	return;
    } else if (name[0] == 'S' && !strcmp(name, "Sched")) {
	if (pending_loop) {   /* idle poll that found nothing: a stuttering step */
	    pending_loop = 0; atomic_fetch_add(&IDLE, 1);
	    if (PERT) sched_yield();
	    return;
	}
    }
    emit(name, pnum, nargs, args, list, (long) nlist);
    if (STREAM && name[0] == 'W' && !strcmp(name, "Wrap")) {    /* end of a factorization: all workers are joined */
	FILE *sf = fopen(STREAM, "a");
	if (sf) { vrt_log_dump(sf); fclose(sf); }
	vrt_log_reset();
	return;
    }
    if (FOCUS_PCT && FOCUS[0] == name[0] && !strcmp(FOCUS, name)) {
	if (!prs) prs = PSEED * 2654435761u + (unsigned)(pnum + 2) * 40503u + 1u;
	prs = prs * 1103515245u + 12345u;
	if ((int) ((prs >> 16) % 100) < FOCUS_PCT) usleep(FOCUS_US);
    }
    perturb(pnum);
}

void vrt_log_raw(const char *fmt, ...)
{
    char buf[1 << 16]; va_list ap; long s; ev_t *x;
    if (!EV) vrt_log_enable(LOG_ON);
    if (!EV) return;
    va_start(ap, fmt); vsnprintf(buf, sizeof buf, fmt, ap); va_end(ap);
    s = atomic_fetch_add(&SEQ, 1);
    if (s >= EVCAP) { atomic_store(&OVER, 1); return; }
    x = &EV[s]; memset(x, 0, sizeof *x);
    x->raw = (char *) r_malloc(strlen(buf) + 1); strcpy(x->raw, buf);
}

void vrt_log_dump(FILE *f)
{
    long n = vrt_log_count(), s; int i;
    for (s = 0; s < n; ++s) {
	ev_t *x = &EV[s];
	if (x->raw) { fprintf(f, "{%s}\n", x->raw); continue; }
	if (!x->name) continue;
	fprintf(f, "{\"e\":\"%s\",\"p\":%d,\"a\":[", x->name, x->p + 1);
	for (i = 0; i < x->nargs; ++i) fprintf(f, "%s%ld", i ? "," : "", x->a[i]);
	fprintf(f, "],\"l\":[");
	for (i = 0; i < x->nlist; ++i) fprintf(f, "%s%ld", i ? "," : "", x->l[i]);
	fprintf(f, "]}\n");
    }
}

/* With -Wl,--wrap=pthread_mutex_unlock every unlock made by a library worker thread becomes a
   perturbation point: the window right after a critical section is where the races live. */
extern int __real_pthread_mutex_unlock(pthread_mutex_t *) __attribute__((weak));
int __wrap_pthread_mutex_unlock(pthread_mutex_t *m)
{
    int r = __real_pthread_mutex_unlock(m);
    if (self_pnum >= 0 && (PERT || FOCUS_PCT)) {
	if (FOCUS_PCT && !strcmp(FOCUS, "unlock")) {
	    if (!prs) prs = PSEED * 2654435761u + (unsigned)(self_pnum + 2) * 40503u + 1u;
	    prs = prs * 1103515245u + 12345u;
	    if ((int) ((prs >> 16) % 100) < FOCUS_PCT) usleep(FOCUS_US);
	} else perturb(self_pnum);
    }
    return r;
}

/* With -Wl,--wrap=pthread_mutex_lock and the focus "lock", a library worker thread is delayed right BEFORE it takes a lock: the window
   between a test made outside a critical section and the section that acts on it (check-then-act) is where this kind of race lives. */
extern int __real_pthread_mutex_lock(pthread_mutex_t *) __attribute__((weak));
int __wrap_pthread_mutex_lock(pthread_mutex_t *m)
{
    if (self_pnum >= 0 && FOCUS_PCT && !strcmp(FOCUS, "lock")) {
	if (!prs) prs = PSEED * 2654435761u + (unsigned)(self_pnum + 2) * 40503u + 1u;
	prs = prs * 1103515245u + 12345u;
	if ((int) ((prs >> 16) % 100) < FOCUS_PCT) usleep(FOCUS_US);
    }
    /* focus "lockpair": a worker that arrives at a lock waits (FOCUS_US at most) for a second worker to arrive at the SAME lock, then both
       go on together: whatever each of them tested before asking for the lock was tested against the same state */
    if (self_pnum >= 0 && FOCUS_PCT && !strcmp(FOCUS, "lockpair")) {
	static _Atomic(pthread_mutex_t *) GATE;
	pthread_mutex_t *cur = atomic_load(&GATE);
	if (cur == m) atomic_store(&GATE, (pthread_mutex_t *) 0);
	else if (cur == 0) {
	    int k;
	    atomic_store(&GATE, m);
	    for (k = 0; k < FOCUS_US / 10 && atomic_load(&GATE) == m; ++k) usleep(10);
	    if (atomic_load(&GATE) == m) atomic_store(&GATE, (pthread_mutex_t *) 0);
	}
    }
    return __real_pthread_mutex_lock(m);
}

/* ------------------------------------------------------------------ allocation tracking */
#define TBL (1 << 16)
static vrt_block_t tbl[TBL]; static pthread_mutex_t mlock = PTHREAD_MUTEX_INITIALIZER;
static int TRACK = 0, SCOPE = 0; static long REQ = 0, FAIL_FROM = 0, NLIVE = 0, FOREIGN = 0, NEXTID = 0;
static size_t LIVEB = 0;
#define MAXSITE 4096
static const char *site_file[MAXSITE]; static int site_line[MAXSITE];
static __thread const char *cur_file = 0; static __thread int cur_line = 0;

static unsigned long hp(void *p) { return (((unsigned long) p) >> 4) * 2654435761ul; }
static void t_add(void *p, size_t size, const char *file, int line)
{
    unsigned long h = hp(p) % TBL; long k;
    for (k = 0; k < TBL; ++k, h = (h + 1) % TBL)
	if (tbl[h].p == 0 || tbl[h].p == (void *) -1) {
	    tbl[h].p = p; tbl[h].size = size; tbl[h].file = file; tbl[h].line = line; tbl[h].id = ++NEXTID;
	    ++NLIVE; LIVEB += size; return;
	}
}
static int t_del(void *p)
{
    unsigned long h = hp(p) % TBL; long k;
    for (k = 0; k < TBL && tbl[h].p; ++k, h = (h + 1) % TBL)
	if (tbl[h].p == p) { tbl[h].p = (void *) -1; --NLIVE; LIVEB -= tbl[h].size; return 1; }
    return 0;
}
void vrt_mem_track(int on) { pthread_mutex_lock(&mlock); TRACK = on; if (on) REQ = 0; pthread_mutex_unlock(&mlock); }
long vrt_mem_requests(void) { return REQ; }
/* requests are counted and made to fail only while the harness is inside a library call */
void vrt_mem_scope(int on) { SCOPE = on; }
void vrt_mem_arm(long k) { pthread_mutex_lock(&mlock); FAIL_FROM = k; REQ = 0; pthread_mutex_unlock(&mlock); }
long vrt_mem_live_count(void) { return NLIVE; }
size_t vrt_mem_live_bytes(void) { return LIVEB; }
long vrt_mem_foreign_frees(void) { return FOREIGN; }
void vrt_mem_forget(void) { pthread_mutex_lock(&mlock); memset(tbl, 0, sizeof tbl); NLIVE = 0; LIVEB = 0; FOREIGN = 0; pthread_mutex_unlock(&mlock); }
long vrt_mem_live(vrt_block_t *out, long max)
{
    long k, n = 0;
    pthread_mutex_lock(&mlock);
    for (k = 0; k < TBL && n < max; ++k)
	if (tbl[k].p && tbl[k].p != (void *) -1) out[n++] = tbl[k];
    pthread_mutex_unlock(&mlock);
    return n;
}
const char *vrt_mem_site(long k, int *line)
{
    if (k < 1 || k > MAXSITE) { *line = 0; return "?"; }
    *line = site_line[k - 1]; return site_file[k - 1] ? site_file[k - 1] : "raw";
}

static void *alloc_common(size_t size, int zero)
{
    void *p = 0; int fail = 0; const char *file = cur_file; int line = cur_line;
    cur_file = 0; cur_line = 0;
    pthread_mutex_lock(&mlock);
    if ((TRACK || FAIL_FROM) && SCOPE) {
	++REQ;
	if (REQ <= MAXSITE) { site_file[REQ - 1] = file; site_line[REQ - 1] = line; }
	if (FAIL_FROM && REQ >= FAIL_FROM) fail = 1;
    }
    pthread_mutex_unlock(&mlock);
    if (fail) return 0;
    p = r_malloc(size ? size : 1);
    if (p && zero) memset(p, 0, size);
    if (p && TRACK) { pthread_mutex_lock(&mlock); t_add(p, size, file, line); pthread_mutex_unlock(&mlock); }
    return p;
}
static void free_common(void *p)
{
    if (!p) return;
    if (TRACK || NLIVE) {
	pthread_mutex_lock(&mlock);
	if (!t_del(p) && TRACK) ++FOREIGN;
	pthread_mutex_unlock(&mlock);
    }
    r_free(p);
}
void *slu_verif_malloc(size_t size, const char *file, int line)
{
    cur_file = file; cur_line = line;
    return alloc_common(size, 0);
}
void slu_verif_free(void *addr, const char *file, int line) { (void) file; (void) line; free_common(addr); }
/* used when the harness is linked with -Wl,--wrap=malloc,--wrap=free,--wrap=calloc:
   raw malloc/free calls inside the library are then seen as well */
void *__wrap_malloc(size_t size) { return alloc_common(size, 0); }
void *__wrap_calloc(size_t n, size_t m) { return alloc_common(n * m, 1); }
void  __wrap_free(void *p) { free_common(p); }

/* ------------------------------------------------------------------ abort / xerbla */
int vrt_abort_exit_code = 42;
void slu_verif_abort(const char *msg)
{
    fprintf(stderr, "SLU-ABORT: %s", msg);
    fflush(stderr);
    _exit(vrt_abort_exit_code);
}
int vrt_xerbla_count = 0, vrt_xerbla_info = 0; char vrt_xerbla_name[16];
void vrt_xerbla_reset(void) { vrt_xerbla_count = 0; vrt_xerbla_info = 0; vrt_xerbla_name[0] = 0; }
int __wrap_xerbla_(char *srname, int *info)
{
    int i;
    ++vrt_xerbla_count; vrt_xerbla_info = *info;
    for (i = 0; i < 15 && srname[i] && srname[i] != ' '; ++i) vrt_xerbla_name[i] = srname[i];
    vrt_xerbla_name[i] = 0;
    return 0;
}

static int count_dir(const char *d)
{
    DIR *dp = opendir(d); struct dirent *e; int n = 0;
    if (!dp) return -1;
    while ((e = readdir(dp))) if (e->d_name[0] != '.') ++n;
    closedir(dp);
    return n;
}
/* A joined thread can linger in /proc/self/task for a moment after pthread_join has returned
   (the kernel wakes the joiner before the task is unhashed): wait up to 200 ms for the count to settle. */
/* A joined thread can stay visible in /proc/self/task for a moment (the joiner is woken before the task is reaped), much longer
   on a loaded machine: the count is re-read until it has come down to `expect` (or for 0.5 s: long enough for a reaped thread to disappear on a loaded machine, short enough that a worker the routine did not join is still seen).  expect <= 0: just settle to 1. */
int vrt_thread_count_until(int expect)
{
    int n = count_dir("/proc/self/task"), k, want = expect > 0 ? expect : 1;
    for (k = 0; k < 500 && n > want; ++k) { usleep(1000); n = count_dir("/proc/self/task"); }
    return n;
}
int vrt_thread_count(void)
{
    int n = count_dir("/proc/self/task"), k;
    for (k = 0; k < 400 && n > 1; ++k) { usleep(500); n = count_dir("/proc/self/task"); }
    return n;
}
int vrt_fd_count(void) { int n = count_dir("/proc/self/fd"); return n > 0 ? n - 1 : n; /* minus the DIR's own fd */ }

/* used by verif_wrap_lacon.c */
void vrt_emit(const char *name, int p, int nargs, const long *args) { if (LOG_ON) emit(name, p, nargs, args, 0, 0); }
void vrt_emit_list(const char *name, int p, int nargs, const long *args, const long *list, long nlist)
{
    long s, i; ev_t *x;
    if (!LOG_ON) return;
    s = atomic_fetch_add(&SEQ, 1);
    if (s >= EVCAP) { atomic_store(&OVER, 1); return; }
    x = &EV[s]; x->name = name; x->p = p; x->raw = 0; x->nargs = nargs > MAXARGS ? MAXARGS : nargs;
    for (i = 0; i < x->nargs; ++i) x->a[i] = args[i];
    x->nlist = (int) nlist; x->l = 0;
    if (nlist > 0) { x->l = (long *) r_malloc(nlist * sizeof(long)); for (i = 0; i < nlist; ++i) x->l[i] = list[i]; }
}
