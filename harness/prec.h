/* Precision layer: compile a harness once per precision with -DPREC=1..4
 * (1 = s, 2 = d, 3 = c, 4 = z). */
#ifndef PREC_H
#define PREC_H
#include <float.h>
#ifndef PREC
#define PREC 2
#endif
#if PREC == 1
#include "slu_mt_sdefs.h"
#define PL s
#define PLS "s"
typedef float SCALAR; typedef float REAL;
#define IS_COMPLEX 0
#define SLU_DT SLU_S
#define UNIT_ROUNDOFF 5.9604644775390625e-08L   /* 2^-24 */
#define scalarMalloc floatMalloc
#elif PREC == 2
#include "slu_mt_ddefs.h"
#define PL d
#define PLS "d"
typedef double SCALAR; typedef double REAL;
#define IS_COMPLEX 0
#define SLU_DT SLU_D
#define UNIT_ROUNDOFF 1.1102230246251565404e-16L /* 2^-53 */
#define scalarMalloc doubleMalloc
#elif PREC == 3
#include "slu_mt_cdefs.h"
#define PL c
#define PLS "c"
typedef complex SCALAR; typedef float REAL;
#define IS_COMPLEX 1
#define SLU_DT SLU_C
#define UNIT_ROUNDOFF 5.9604644775390625e-08L
#define scalarMalloc complexMalloc
#else
#include "slu_mt_zdefs.h"
#define PL z
#define PLS "z"
typedef doublecomplex SCALAR; typedef double REAL;
#define IS_COMPLEX 1
#define SLU_DT SLU_Z
#define UNIT_ROUNDOFF 1.1102230246251565404e-16L
#define scalarMalloc doublecomplexMalloc
#endif
#include <complex.h>
#undef complex     /* <complex.h> defines the macro 'complex'; the library's type is used through SCALAR */

#define CAT2_(a, b) a##b
#define CAT2(a, b) CAT2_(a, b)
#define CAT3_(a, b, c) a##b##c
#define CAT3(a, b, c) CAT3_(a, b, c)
#define PG(name) CAT3(p, PL, name)     /* pdgssv, pdgstrf, ...      */
#define G(name)  CAT2(PL, name)        /* dgstrs, dCreate_..., ...  */
#define SPG(name) CAT3(sp_, PL, name)  /* sp_dgemv, sp_dtrsv, ...   */

typedef long double _Complex lc;
#if IS_COMPLEX
static inline lc to_lc(SCALAR x) { return (long double) x.r + (long double) x.i * 1.0iL; }
static inline SCALAR from_lc(lc v) { SCALAR x; x.r = (REAL) creall(v); x.i = (REAL) cimagl(v); return x; }
static inline SCALAR mk_scalar(double re, double im) { SCALAR x; x.r = (REAL) re; x.i = (REAL) im; return x; }
#else
static inline lc to_lc(SCALAR x) { return (long double) x; }
static inline SCALAR from_lc(lc v) { return (SCALAR) creall(v); }
static inline SCALAR mk_scalar(double re, double im) { (void) im; return (SCALAR) re; }
#endif
/* unit roundoff used in the rounding bounds; complex arithmetic carries the
   customary small constant (Higham, Accuracy and Stability, Lemma 3.5) */
#define BOUND_U (IS_COMPLEX ? 4.0L * UNIT_ROUNDOFF : UNIT_ROUNDOFF)
#endif
