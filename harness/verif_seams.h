/* Force-included (-include) in every library translation unit of the
 * verification builds: prototypes for the USER_MALLOC/USER_FREE/USER_ABORT
 * override points that slu_mt_util.h already offers. */
#ifndef VERIF_SEAMS_H
#define VERIF_SEAMS_H
#include <stddef.h>
void *slu_verif_malloc(size_t size, const char *file, int line);
void  slu_verif_free(void *addr, const char *file, int line);
void  slu_verif_abort(const char *msg);
#endif
