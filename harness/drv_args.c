/* drv_args: execute illegal-argument cases (property C15) on the real library.
 * Input: one case per line  "<routine> <cond>[,<cond>]"  as enumerated by TLC from
 * SluArgs!Cases; output: one record per case with the info returned, how often and with which
 * position the error handler was called, whether every argument-reachable object is bit-identical
 * afterwards, and the number of live library allocations before / after.
 * usage: drv_args cases.txt out.ndjson
 */
#define _GNU_SOURCE
#include "prec.h"
#include "verif_rt.h"
#include "oracle.h"
#include "matgen.h"
#include <unistd.h>

#define N 6
static SuperMatrix A, B, X, L, U; static int_t *perm_c, *perm_r, *etree, *colcnt, *part; static REAL *R, *C, *ferr, *berr;
static SCALAR *aval, *bval, *xval; static int_t *arow, *acol; static superlumt_options_t opt; static Gstat_t G; static equed_t equed;

static int has(const char *v, const char *c)
{ char buf[256]; const char *p; snprintf(buf, sizeof buf, ",%s,", v); { char key[64]; snprintf(key, sizeof key, ",%s,", c); p = strstr(buf, key); } return p != 0; }

static unsigned long snapshot(void)
{
    SCPformat *Ls = (SCPformat *) L.Store; NCPformat *Us = (NCPformat *) U.Store; unsigned long h = 0;
    h ^= fnv(aval, sizeof(SCALAR) * acol[N]); h = h * 31 + fnv(arow, sizeof(int_t) * acol[N]); h = h * 31 + fnv(acol, sizeof(int_t) * (N + 1));
    h = h * 31 + fnv(bval, sizeof(SCALAR) * (N + 2) * 2); h = h * 31 + fnv(xval, sizeof(SCALAR) * (N + 2) * 2);
    h = h * 31 + fnv(perm_c, sizeof(int_t) * N); h = h * 31 + fnv(perm_r, sizeof(int_t) * N);
    h = h * 31 + fnv(R, sizeof(REAL) * N); h = h * 31 + fnv(C, sizeof(REAL) * N); h = h * 31 + (unsigned long) equed;
    h = h * 31 + fnv(Ls->nzval, sizeof(SCALAR) * 4); h = h * 31 + fnv(Ls->rowind_colbeg, sizeof(int_t) * N); h = h * 31 + fnv(Us->colbeg, sizeof(int_t) * N);
    h = h * 31 + fnv(etree, sizeof(int_t) * N);
    return h;
}

int main(int argc, char **argv)
{
    FILE *cf, *of; char line[512]; rng_t Rg; mat_t M; int i; int_t info;
    superlu_memusage_t mu; REAL rpg, rcond;
    if (argc < 3) return 2;
    cf = fopen(argv[1], "r"); of = fopen(argv[2], "w"); if (!cf || !of) return 2;
    { int fd = open("/dev/null", 1); if (fd >= 0) dup2(fd, 1); }
    /* a valid 6x6 system with its factors */
    Rg.s = 12345; mat_from_pattern(&M, N, pat_random(N, 400, 1, &Rg), 1, &Rg);
    aval = M.val; arow = M.rowind; acol = M.colptr;
    G(Create_CompCol_Matrix)(&A, N, N, M.nnz, aval, arow, acol, SLU_NC, SLU_DT, SLU_GE);
    bval = scalarMalloc((N + 2) * 2); xval = scalarMalloc((N + 2) * 2);
    for (i = 0; i < (N + 2) * 2; ++i) { bval[i] = mk_scalar(1.0 + i, 0); xval[i] = mk_scalar(0, 0); }
    G(Create_Dense_Matrix)(&B, N, 2, bval, N + 2, SLU_DN, SLU_DT, SLU_GE);
    G(Create_Dense_Matrix)(&X, N, 2, xval, N + 2, SLU_DN, SLU_DT, SLU_GE);
    perm_c = intMalloc(N); perm_r = intMalloc(N); etree = intMalloc(N); colcnt = intMalloc(N); part = intMalloc(N);
    R = (REAL *) malloc(sizeof(REAL) * N); C = (REAL *) malloc(sizeof(REAL) * N); ferr = (REAL *) calloc(4, sizeof(REAL)); berr = (REAL *) calloc(4, sizeof(REAL));
    for (i = 0; i < N; ++i) { perm_c[i] = i; R[i] = 1; C[i] = 1; }
    memset(&opt, 0, sizeof opt);
    opt.nprocs = 2; opt.fact = DOFACT; opt.trans = NOTRANS; opt.refact = NO; opt.panel_size = 4; opt.relax = 2; opt.diag_pivot_thresh = 1.0;
    opt.usepr = NO; opt.SymmetricMode = NO; opt.PrintStat = NO; opt.perm_c = perm_c; opt.perm_r = perm_r; opt.lwork = 0; opt.work = 0;
    opt.etree = etree; opt.colcnt_h = colcnt; opt.part_super_h = part;
    vrt_ienv[1] = 4; vrt_ienv[2] = 2; vrt_ienv[3] = 4;
    PG(gssvx)(2, &opt, &A, perm_c, perm_r, &equed, R, C, &L, &U, &B, &X, &rpg, &rcond, ferr, berr, &mu, &info);
    if (info != 0) { fprintf(stderr, "setup factorization failed %ld\n", (long) info); return 3; }
    StatAlloc(N, 2, 4, 2, &G); StatInit(N, 2, &G);
    vrt_mem_track(1);
    while (fgets(line, sizeof line, cf)) {
	char routine[32], viol[256]; unsigned long h0, h1; long live0, live1; int xc, xp;
	if (sscanf(line, "%31s %255s", routine, viol) != 2) continue;
	/* fresh legal argument values for this case */
	{
	    int_t nprocs = 2; superlumt_options_t o = opt; SuperMatrix A2 = A, B2 = B, X2 = X, L2 = L, U2 = U; DNformat Bs = *(DNformat *) B.Store, Xs = *(DNformat *) X.Store;
	    equed_t eq = NOEQUIL; REAL Rsave0 = R[1], Csave0 = C[2]; trans_t tr = NOTRANS; char norm[2] = "1", uplo[2] = "L", trs[2] = "N", diag[2] = "U";
	    int_t incx = 1, incy = 1; SCALAR xv[N + 2], yv[N + 2], al = mk_scalar(1, 0), be = mk_scalar(0, 0); REAL anorm = 1, rc = 0, rowcnd, colcnd, amax;
	    B2.Store = &Bs; X2.Store = &Xs;
	    for (i = 0; i < N + 2; ++i) { xv[i] = mk_scalar(1, 0); yv[i] = mk_scalar(2, 0); }
	    info = 0;
	    if (has(viol, "nprocs")) nprocs = 0;
	    if (has(viol, "fact")) o.fact = (fact_t) 7;
	    if (has(viol, "refact")) o.refact = (yes_no_t) 5;
	    if (has(viol, "usepr")) o.usepr = (yes_no_t) 5;
	    if (has(viol, "lwork")) o.lwork = -2;
	    if (has(viol, "Ashape")) A2.ncol = N + 1;
	    if (has(viol, "Atype")) A2.Stype = SLU_DN;
	    if (has(viol, "Adtype")) A2.Dtype = (SLU_DT == SLU_D) ? SLU_S : SLU_D;
	    if (has(viol, "Aneg")) A2.nrow = -1;
	    if (has(viol, "nrhs0")) { B2.ncol = 0; X2.ncol = 0; }     /* legal: no right-hand sides */
	    if (has(viol, "Bncol")) B2.ncol = -1;
	    if (has(viol, "Bldb")) Bs.lda = N - 1;
	    if (has(viol, "Btype")) B2.Stype = SLU_NC;
	    if (has(viol, "Xldx")) Xs.lda = N - 1;
	    if (has(viol, "Xncol")) X2.ncol = 1;
	    if (has(viol, "Xtype")) X2.Stype = SLU_NC;
	    if (has(viol, "Lshape")) L2.ncol = N + 1;
	    if (has(viol, "Ltype")) L2.Stype = SLU_NC;
	    if (has(viol, "Ushape")) U2.ncol = N + 1;
	    if (has(viol, "Utype")) U2.Stype = SLU_NC;
	    if (has(viol, "norm")) norm[0] = 'Q';
	    if (has(viol, "uplo")) uplo[0] = 'Q';
	    if (has(viol, "diag")) diag[0] = 'Q';
	    if (has(viol, "incx")) incx = 0;
	    if (has(viol, "incy")) incy = 0;
	    if (!strcmp(routine, "gssvx")) {
		if (has(viol, "trans")) o.trans = (trans_t) 9;
		if (has(viol, "equed") || has(viol, "Rneg") || has(viol, "Cneg")) o.fact = has(viol, "fact") ? o.fact : FACTORED;
		if (has(viol, "equed")) eq = (equed_t) 9;
		else if (has(viol, "Rneg") && has(viol, "Cneg")) eq = BOTH;
		else if (has(viol, "Rneg")) eq = ROW;
		else if (has(viol, "Cneg")) eq = COL;
		if (has(viol, "eqboth") && !has(viol, "equed")) eq = BOTH;     /* both arrays are tested, one of them is bad */
		if (has(viol, "Rneg")) R[1] = -1;
		if (has(viol, "Cneg")) C[2] = 0;
	    } else { if (has(viol, "trans")) { tr = (trans_t) 9; trs[0] = 'Q'; } }
	    equed = eq;
	    h0 = snapshot(); live0 = vrt_mem_live_count(); vrt_xerbla_reset();
	    if (!strcmp(routine, "gssv")) PG(gssv)(nprocs, &A2, perm_c, perm_r, &L2, &U2, &B2, &info);
	    else if (!strcmp(routine, "gssvx")) PG(gssvx)(nprocs, &o, &A2, perm_c, perm_r, &equed, R, C, &L2, &U2, &B2, &X2, &rpg, &rcond, ferr, berr, &mu, &info);
	    else if (!strcmp(routine, "gstrs")) G(gstrs)(tr, &L2, &U2, perm_r, perm_c, &B2, &G, &info);
	    else if (!strcmp(routine, "gsrfs")) G(gsrfs)(tr, &A2, &L2, &U2, perm_r, perm_c, NOEQUIL, R, C, &B2, &X2, ferr, berr, &G, &info);
	    else if (!strcmp(routine, "gscon")) G(gscon)(norm, &L2, &U2, anorm, &rc, &info);
	    else if (!strcmp(routine, "gsequ")) G(gsequ)(&A2, R, C, &rowcnd, &colcnd, &amax, &info);
	    else if (!strcmp(routine, "trsv")) SPG(trsv)(uplo, trs, diag, &L2, &U2, xv, &info);
	    else if (!strcmp(routine, "gemv")) SPG(gemv)(trs, al, &A2, xv, incx, be, yv, incy);
	    else continue;
	    xc = vrt_xerbla_count; xp = vrt_xerbla_info; live1 = vrt_mem_live_count();
	    h1 = snapshot();
	    R[1] = Rsave0; C[2] = Csave0; equed = NOEQUIL;
	    fprintf(of, "{\"e\":\"Arg\",\"prec\":\"%s\",\"routine\":\"%s\",\"viol\":[", PLS, routine);
	    { char *v = strdup(viol), *s2 = 0, *t; int first = 1; for (t = strtok_r(v, ",", &s2); t; t = strtok_r(0, ",", &s2)) { fprintf(of, "%s\"%s\"", first ? "" : ",", t); first = 0; } free(v); }
	    fprintf(of, "],\"info\":%ld,\"xcount\":%d,\"xpos\":%d,\"xname\":\"%s\",\"unch\":%d,\"live0\":%ld,\"live1\":%ld}\n", (long) info, xc, xp, vrt_xerbla_name, h0 == h1, live0, live1);
	    fflush(of);
	}
    }
    fclose(of);
    return 0;
}
