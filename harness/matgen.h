/* Deterministic sparse test-matrix generators of the harness (pattern + values). */
#ifndef MATGEN_H
#define MATGEN_H
#include "prec.h"
#include <stdlib.h>
#include <string.h>
#include <math.h>

typedef struct { unsigned long s; } rng_t;
static inline unsigned long rng_next(rng_t *r)
{ unsigned long z = (r->s += 0x9e3779b97f4a7c15ul); z = (z ^ (z >> 30)) * 0xbf58476d1ce4e5b9ul; z = (z ^ (z >> 27)) * 0x94d049bb133111ebul; return z ^ (z >> 31); }
static inline unsigned rng_int(rng_t *r, unsigned m) { return (unsigned) (rng_next(r) % (m ? m : 1)); }
static inline double rng_unit(rng_t *r) { return (rng_next(r) >> 11) * (1.0 / 9007199254740992.0); }

typedef struct {
    int_t n, nnz; int_t *colptr, *rowind; SCALAR *val;   /* CSC */
    char *pat;                                           /* n*n dense 0/1 pattern, row + col*n */
} mat_t;

static void mat_free(mat_t *M) { free(M->pat); M->pat = 0; /* CSC arrays are owned by the SuperMatrix */ }

/* value styles: 0 = random in +-[1,11); 1 = strictly diagonally dominant (needs full diagonal);
   2 = small integers in -2..2 \ {0}; 3 = graded (rows scaled by powers of two);
   4 = strictly diagonally dominant by ROWS only, rows then scaled by powers of two: elimination without interchanges keeps every
       diagonal entry nonzero (row dominance is inherited by the Schur complements), but the diagonal is not the largest entry of its column */
static SCALAR gen_value(rng_t *r, int style, int i, int j, int n)
{
    double re, im = 0;
    if (style == 2) { int v = (int) rng_int(r, 4); re = v < 2 ? v - 2 : v - 1; if (IS_COMPLEX) { int w = (int) rng_int(r, 5) - 2; im = w; } }
    else { re = 1.0 + 10.0 * rng_unit(r); if (rng_int(r, 2)) re = -re; if (IS_COMPLEX) im = 5.0 * (rng_unit(r) - 0.5); }
    if (style == 3) { double sc = ldexp(1.0, (int) ((i * 7 + 3) % 13) - 6); re *= sc; im *= sc; }
    (void) j; (void) n;
    return mk_scalar(re, im);
}

/* Build CSC arrays (allocated with the library's allocators so that the
   library's Destroy routines can free them) from a dense pattern. */
static void mat_from_pattern(mat_t *M, int_t n, char *pat, int style, rng_t *r)
{
    int_t i, j, nnz = 0;
    for (i = 0; i < (long) n * n; ++i) if (pat[i]) ++nnz;
    M->n = n; M->nnz = nnz; M->pat = pat;
    M->val = scalarMalloc(nnz ? nnz : 1); M->rowind = intMalloc(nnz ? nnz : 1); M->colptr = intMalloc(n + 1);
    nnz = 0;
    for (j = 0; j < n; ++j) {
	M->colptr[j] = nnz;
	for (i = 0; i < n; ++i) if (pat[i + (long) j * n]) { M->rowind[nnz] = i; M->val[nnz] = gen_value(r, style, i, j, n); ++nnz; }
    }
    M->colptr[n] = nnz;
    if (style == 1) {   /* make it strictly row- and column- diagonally dominant */
	double *rs = (double *) calloc(n, sizeof(double)), *cs = (double *) calloc(n, sizeof(double));
	for (j = 0; j < n; ++j) for (i = M->colptr[j]; i < M->colptr[j + 1]; ++i)
	    if (M->rowind[i] != j) { double a = (double) cabsl(to_lc(M->val[i])); rs[M->rowind[i]] += a; cs[j] += a; }
	for (j = 0; j < n; ++j) for (i = M->colptr[j]; i < M->colptr[j + 1]; ++i)
	    if (M->rowind[i] == j) { double d = (rs[j] > cs[j] ? rs[j] : cs[j]) * 1.5 + 1.0; M->val[i] = mk_scalar(rng_int(r, 2) ? d : -d, 0); }
	free(rs); free(cs);
    }
    if (style == 4) {
	double *rs = (double *) calloc(n, sizeof(double));
	for (j = 0; j < n; ++j) for (i = M->colptr[j]; i < M->colptr[j + 1]; ++i)
	    if (M->rowind[i] != j) rs[M->rowind[i]] += (double) cabsl(to_lc(M->val[i]));
	for (j = 0; j < n; ++j) for (i = M->colptr[j]; i < M->colptr[j + 1]; ++i) {
	    int_t ri = M->rowind[i]; lc v = to_lc(M->val[i]);
	    if (ri == j) v = (lc) ((rs[j] * 1.5 + 1.0) * (rng_int(r, 2) ? 1.0 : -1.0));
	    M->val[i] = from_lc(v * (lc) ldexp(1.0, (int) ((ri * 5) % 7)));
	}
	free(rs);
    }
}

/* forest: par[1..n] 1-based parents (root = n+1), postordered.  Row j has
   nonzeros in column j and in a subset of j's ancestors that always contains
   par[j]; with probability lowfill% it also has entries in columns on the path
   from a descendant d up to j (entries below the diagonal, so that L is not
   trivial and row interchanges happen).  All columns of a row lie on one root
   path, hence the column etree of the result is the given forest. */
static char *pat_forest(int_t n, const int *par, int dens, int lowfill, rng_t *r)
{
    char *pat = (char *) calloc((size_t) n * n, 1); int_t j, k;
    for (j = 1; j <= n; ++j) {
	int first = 1;
	pat[(j - 1) + (long) (j - 1) * n] = 1;
	k = par[j];
	while (k <= n) { if (first || (int) rng_int(r, 100) < dens) pat[(j - 1) + (long) (k - 1) * n] = 1; first = 0; k = par[k]; }
	if ((int) rng_int(r, 100) < lowfill) {
	    /* random descendant d of j: walk down through random children */
	    int_t d = j, c, cnt, pick;
	    for (;;) {
		cnt = 0; for (c = 1; c < d; ++c) if (par[c] == d) ++cnt;
		if (!cnt) break;
		pick = rng_int(r, cnt); for (c = 1; c < d; ++c) if (par[c] == d && pick-- == 0) break;
		d = c;
		if (rng_int(r, 3) == 0) break;
	    }
	    if (d != j) {
		pat[(j - 1) + (long) (d - 1) * n] = 1;
		for (k = par[d]; k < j; k = par[k]) if ((int) rng_int(r, 100) < dens) pat[(j - 1) + (long) (k - 1) * n] = 1;
	    }
	}
    }
    return pat;
}
static char *pat_random(int_t n, int dens_pm, int full_diag, rng_t *r)   /* dens_pm: per-mille probability of an entry */
{
    char *pat = (char *) calloc((size_t) n * n, 1); int_t i, j;
    for (j = 0; j < n; ++j) for (i = 0; i < n; ++i) if ((int) rng_int(r, 1000) < dens_pm) pat[i + (long) j * n] = 1;
    if (full_diag) for (j = 0; j < n; ++j) pat[j + (long) j * n] = 1;
    else {   /* structurally nonsingular through a random permutation "diagonal" */
	int_t *p = (int_t *) malloc(sizeof(int_t) * n);
	for (j = 0; j < n; ++j) p[j] = j;
	for (j = n - 1; j > 0; --j) { int_t k = rng_int(r, j + 1), t = p[j]; p[j] = p[k]; p[k] = t; }
	for (j = 0; j < n; ++j) pat[p[j] + (long) j * n] = 1;
	free(p);
    }
    return pat;
}
static char *pat_banded(int_t n, int kl, int ku)
{
    char *pat = (char *) calloc((size_t) n * n, 1); int_t i, j;
    for (j = 0; j < n; ++j) for (i = 0; i < n; ++i) if (i - j <= kl && j - i <= ku) pat[i + (long) j * n] = 1;
    return pat;
}
static char *pat_arrow(int_t n, int last)
{
    char *pat = (char *) calloc((size_t) n * n, 1); int_t j, h = last ? n - 1 : 0;
    for (j = 0; j < n; ++j) { pat[j + (long) j * n] = 1; pat[h + (long) j * n] = 1; pat[j + (long) h * n] = 1; }
    return pat;
}
static char *pat_grid(int_t k)   /* 5-point Laplacian pattern on a k x k grid, n = k*k */
{
    int_t n = k * k, x, y; char *pat = (char *) calloc((size_t) n * n, 1);
    for (y = 0; y < k; ++y) for (x = 0; x < k; ++x) {
	int_t c = x + y * k;
	pat[c + (long) c * n] = 1;
	if (x > 0) pat[(c - 1) + (long) c * n] = 1;
	if (x < k - 1) pat[(c + 1) + (long) c * n] = 1;
	if (y > 0) pat[(c - k) + (long) c * n] = 1;
	if (y < k - 1) pat[(c + k) + (long) c * n] = 1;
    }
    return pat;
}
#endif
