/* drv_equil: ?gsequ and ?laqgs of the real library on matrices whose entries are 0 or 2^e
 * (property C11, exact domain of SluEquil.tla).  Enumerates every m x n matrix (m = n <= nmax)
 * over a set of exponents plus "absent", or random ones, and writes the exponents of all outputs.
 * usage: drv_equil out.ndjson n mode count seed e1,e2,...     (mode = all | rand)
 */
#include "prec.h"
#include "verif_rt.h"
#include "matgen.h"
#include <math.h>
#define ZEROX (-9999)
#define INFX 9999
#define NP2 7777
static long expo(double v)
{
    int e; double m;
    if (v == 0) return ZEROX;
    if (isinf(v)) return INFX;
    if (v != v) return NP2 + 1;
    m = frexp(fabs(v), &e);
    return m == 0.5 ? (long) e - 1 : NP2;
}
static void run_case(FILE *f, int n, const long *cell, long id)
{
    int_t nnz = 0, i, j, *colptr = intMalloc(n + 1), *rowind; SCALAR *val; SuperMatrix A; REAL *R = (REAL *) malloc(sizeof(REAL) * (n + 1)), *C = (REAL *) malloc(sizeof(REAL) * (n + 1));
    REAL rowcnd = -1, colcnd = -1, amax = -1; int_t info = -99; equed_t equed = NOEQUIL; int first = 1;
    for (i = 0; i < n * n; ++i) if (cell[i] != 12345) ++nnz;
    rowind = intMalloc(nnz ? nnz : 1); val = scalarMalloc(nnz ? nnz : 1); nnz = 0;
    fprintf(f, "{\"e\":\"Equil\",\"prec\":\"%s\",\"id\":%ld,\"m\":%d,\"n\":%d,\"ent\":[", PLS, id, n, n);
    for (j = 0; j < n; ++j) { colptr[j] = nnz; for (i = 0; i < n; ++i) if (cell[i + j * n] != 12345) {
	    double v = cell[i + j * n] == ZEROX ? 0.0 : ldexp(1.0, (int) cell[i + j * n]); if ((i + j) % 2) v = -v;
	    rowind[nnz] = i; val[nnz] = mk_scalar(v, 0); ++nnz;
	    fprintf(f, "%s[%d,%d,%ld]", first ? "" : ",", (int) i + 1, (int) j + 1, cell[i + j * n]); first = 0; } }
    colptr[n] = nnz;
    for (i = 0; i <= n; ++i) { R[i] = (REAL) -7; C[i] = (REAL) -7; }
    G(Create_CompCol_Matrix)(&A, n, n, nnz, val, rowind, colptr, SLU_NC, SLU_DT, SLU_GE);
    G(gsequ)(&A, R, C, &rowcnd, &colcnd, &amax, &info);
    fprintf(f, "],\"info\":%ld,\"amax\":%ld,\"rowcnd\":%ld,\"colcnd\":%ld,\"R\":[", (long) info, expo(amax), expo(rowcnd), expo(colcnd));
    for (i = 0; i < n; ++i) fprintf(f, "%s%ld", i ? "," : "", expo(R[i]));
    fprintf(f, "],\"C\":[");
    for (i = 0; i < n; ++i) fprintf(f, "%s%ld", i ? "," : "", expo(C[i]));
    fprintf(f, "]");
    if (info == 0) {
	G(laqgs)(&A, R, C, rowcnd, colcnd, amax, &equed);
	fprintf(f, ",\"equed\":%d,\"aout\":[", (int) equed);
	for (i = 0; i < nnz; ++i) fprintf(f, "%s%ld", i ? "," : "", expo((double) creall(to_lc(val[i]))));
	fprintf(f, "]");
    } else fprintf(f, ",\"equed\":-1,\"aout\":[]");
    fprintf(f, "}\n");
    Destroy_CompCol_Matrix(&A); free(R); free(C);
}
int main(int argc, char **argv)
{
    FILE *f; int n, ne = 0, k; long count, id = 0, exps[32], cell[64]; rng_t Rg; char *s2 = 0, *t; const char *mode;
    if (argc < 7) return 2;
    f = fopen(argv[1], "w"); n = atoi(argv[2]); mode = argv[3]; count = atol(argv[4]); Rg.s = strtoul(argv[5], 0, 10) * 31 + 7;
    for (t = strtok_r(argv[6], ",", &s2); t && ne < 30; t = strtok_r(0, ",", &s2)) exps[ne++] = atol(t);
    exps[ne++] = 12345;      /* absent */
    exps[ne++] = ZEROX;      /* explicit zero */
    { int fd = open("/dev/null", 1); if (fd >= 0) dup2(fd, 1); }
    if (!strcmp(mode, "all")) {
	long total = 1, c; for (k = 0; k < n * n; ++k) total *= ne;
	for (c = 0; c < total; ++c) { long x = c; for (k = 0; k < n * n; ++k) { cell[k] = exps[x % ne]; x /= ne; } run_case(f, n, cell, id++); }
    } else {
	long c; for (c = 0; c < count; ++c) { for (k = 0; k < n * n; ++k) cell[k] = rng_int(&Rg, 3) == 0 ? 12345 : exps[rng_int(&Rg, ne)]; run_case(f, n, cell, id++); }
    }
    fclose(f);
    return 0;
}
