/* drv_order: run the column orderings (get_perm_c 0..3) and the preprocessing step
 * (sp_colorder: A*Pc view, column elimination tree, postorder, column counts and supernode
 * partition of the bounding factor) of the real library on enumerated / sampled 0-1 patterns,
 * and write one record per case.  TLC evaluates the declarative definitions of SluOrder.tla
 * (and SluSymb.tla for the column-count bound) on every record.
 *
 * usage: drv_order out.ndjson n mode count seed [sym]
 *    mode = all  : every n x n pattern (2^(n*n)); count ignored
 *    mode = rand : count random patterns with density chosen per pattern
 */
#include "slu_mt_ddefs.h"
#include "verif_rt.h"
#include "oracle.h"
#include "matgen.h"

static void put(FILE *f, const char *k, const int_t *a, int n, int add)
{ int i; fprintf(f, ",\"%s\":[", k); for (i = 0; i < n; ++i) fprintf(f, "%s%ld", i ? "," : "", (long) a[i] + add); fprintf(f, "]"); }

/* watchdog: an ordering that does not return is an outcome to report, not a reason for the check to stall */
#include <signal.h>
#include <unistd.h>
static FILE *g_f; static int g_n, g_order, g_sym; static const char *g_pat; static long g_id;
static void on_alarm(int sig)
{
    int i, j, first = 1; (void) sig;
    fprintf(g_f, "{\"e\":\"Hang\",\"id\":%ld,\"n\":%d,\"order\":%d,\"sym\":%d,\"pat\":[", g_id, g_n, g_order, g_sym);
    for (j = 0; j < g_n; ++j) for (i = 0; i < g_n; ++i) if (g_pat[i + j * g_n]) { fprintf(g_f, "%s[%d,%d]", first ? "" : ",", i + 1, j + 1); first = 0; }
    fprintf(g_f, "]}\n"); fflush(g_f);
    _exit(4);
}

static int one_case(FILE *f, int n, const char *pat, int order, int sym, long id)
{
    int_t nnz = 0, i, j, *colptr = intMalloc(n + 1), *rowind, *perm_c = intMalloc(n + 1), *pc_in = intMalloc(n + 1), *view = intMalloc(n + 1);
    double *val; SuperMatrix A, AC; superlumt_options_t o; unsigned long ck[3]; NCPformat *ACs; int shares, ok = 1;
    for (i = 0; i < n * n; ++i) if (pat[i]) ++nnz;
    rowind = intMalloc(nnz ? nnz : 1); val = doubleMalloc(nnz ? nnz : 1);
    nnz = 0;
    for (j = 0; j < n; ++j) { colptr[j] = nnz; for (i = 0; i < n; ++i) if (pat[i + j * n]) { rowind[nnz] = i; val[nnz] = 1.0 + i + 0.5 * j; ++nnz; } }
    colptr[n] = nnz;
    dCreate_CompCol_Matrix(&A, n, n, nnz, val, rowind, colptr, SLU_NC, SLU_D, SLU_GE);
    ck[0] = fnv(val, sizeof(double) * nnz); ck[1] = fnv(rowind, sizeof(int_t) * nnz); ck[2] = fnv(colptr, sizeof(int_t) * (n + 1));
    g_f = f; g_n = n; g_order = order; g_sym = sym; g_pat = pat; g_id = id; signal(SIGALRM, on_alarm); alarm(20);
    if (order < 0) for (i = 0; i < n; ++i) perm_c[i] = i; else get_perm_c(order, &A, perm_c);
    for (i = 0; i < n; ++i) pc_in[i] = perm_c[i];
    memset(&o, 0, sizeof o);
    o.nprocs = 1; o.refact = NO; o.panel_size = sp_ienv(1); o.relax = sp_ienv(2); o.SymmetricMode = sym ? YES : NO; o.usepr = NO;
    o.perm_c = perm_c; o.etree = intMalloc(n + 1); o.colcnt_h = intMalloc(n + 1); o.part_super_h = intMalloc(n + 1);
    fprintf(f, "{\"e\":\"Order\",\"id\":%ld,\"n\":%d,\"order\":%d,\"sym\":%d,\"pat\":[", id, n, order, sym);
    { int first = 1; for (j = 0; j < n; ++j) for (i = 0; i < n; ++i) if (pat[i + j * n]) { fprintf(f, "%s[%d,%d]", first ? "" : ",", (int) i + 1, (int) j + 1); first = 0; } }
    fprintf(f, "]");
    put(f, "pcin", pc_in, n, 1);
    {   /* a bijection? (checked again by TLC) -- sp_colorder must only be called with a valid ordering */
	char *seen = (char *) calloc(n + 1, 1); for (i = 0; i < n; ++i) { if (pc_in[i] < 0 || pc_in[i] >= n || seen[pc_in[i]]) ok = 0; else seen[pc_in[i]] = 1; } free(seen);
    }
    if (ok) {
	sp_colorder(&A, perm_c, &o, &AC);
	ACs = (NCPformat *) AC.Store;
	shares = (ACs->nzval == (void *) val) && (ACs->rowind == rowind);
	for (j = 0; j < n; ++j) { view[j] = -1; for (i = 0; i < n; ++i) if (ACs->colbeg[j] == colptr[i] && ACs->colend[j] == colptr[i + 1]) { if (view[j] < 0 || colptr[i] != colptr[i + 1]) view[j] = i; } }
	/* columns with no entries are indistinguishable by their extents: resolve them through the permutation itself */
	for (i = 0; i < n; ++i) if (colptr[i] == colptr[i + 1] && perm_c[i] >= 0 && perm_c[i] < n && ACs->colbeg[perm_c[i]] == ACs->colend[perm_c[i]]) view[perm_c[i]] = i;
	put(f, "pcout", perm_c, n, 1); put(f, "etree", o.etree, n, 1); put(f, "colcnt", o.colcnt_h, n, 0); put(f, "part", o.part_super_h, n, 0);
	put(f, "view", view, n, 1);
	fprintf(f, ",\"shares\":%d,\"Aunch\":%d,\"acn\":%ld,\"acnnz\":%ld", shares,
		ck[0] == fnv(val, sizeof(double) * nnz) && ck[1] == fnv(rowind, sizeof(int_t) * nnz) && ck[2] == fnv(colptr, sizeof(int_t) * (n + 1)),
		(long) AC.ncol, (long) ACs->nnz);
	Destroy_CompCol_Permuted(&AC);
    }
    fprintf(f, ",\"valid\":%d}\n", ok);
    alarm(0);
    SUPERLU_FREE(o.etree); SUPERLU_FREE(o.colcnt_h); SUPERLU_FREE(o.part_super_h);
    Destroy_CompCol_Matrix(&A); SUPERLU_FREE(perm_c); SUPERLU_FREE(pc_in); SUPERLU_FREE(view);
    return 0;
}

int main(int argc, char **argv)
{
    FILE *f; int n, sym, order; long count, id = 0, k; rng_t R; char *pat; const char *mode;
    if (argc < 6) { fprintf(stderr, "usage: drv_order out n all|rand count seed [sym]\n"); return 2; }
    f = fopen(argv[1], "w"); n = atoi(argv[2]); mode = argv[3]; count = atol(argv[4]); R.s = strtoul(argv[5], 0, 10) * 977 + 1; sym = argc > 6 ? atoi(argv[6]) : 0;
    if (!f) return 2;
    pat = (char *) calloc(n * n + 1, 1);
    { int fd = open("/dev/null", 1); if (fd >= 0) dup2(fd, 1); }
    if (!strcmp(mode, "all")) {
	long total = 1L << (n * n), mask;
	for (mask = 0; mask < total; ++mask) {
	    for (k = 0; k < n * n; ++k) pat[k] = (mask >> k) & 1;
	    if (sym) { int d, okd = 1; for (d = 0; d < n; ++d) if (!pat[d + d * n]) okd = 0; if (!okd) continue; }
	    for (order = -1; order <= 3; ++order) { if (sym && order != 2 && order != -1) continue; one_case(f, n, pat, order, sym, id++); }
	}
    } else {
	for (k = 0; k < count; ++k) {
	    int dens = 5 + (int) rng_int(&R, 60), i;
	    for (i = 0; i < n * n; ++i) pat[i] = (int) rng_int(&R, 100) < dens;
	    if (sym || rng_int(&R, 2)) for (i = 0; i < n; ++i) pat[i + i * n] = 1;
	    if (rng_int(&R, 6) == 0) { int r = rng_int(&R, n); for (i = 0; i < n; ++i) pat[r + i * n] = 1; }      /* dense row */
	    if (rng_int(&R, 8) == 0 && !sym) { int c = rng_int(&R, n); for (i = 0; i < n; ++i) pat[i + c * n] = 0; }  /* empty column */
	    for (order = -1; order <= 3; ++order) { if (sym && order != 2 && order != -1) continue; one_case(f, n, pat, order, sym, id++); }
	}
    }
    fclose(f);
    return 0;
}
