/* drv_kern: the sparse kernels and format utilities of the real library on small (Gaussian)
 * integer data (property C19, exact domain of SluKernels.tla).  One record per call with all
 * inputs and the output as integers; TLC recomputes the dense definition and compares exactly.
 * usage: drv_kern out.ndjson count seed [strided]
 *   strided = 1: also non-unit increments for sp_?gemv (each in its own child: the library aborts
 *                with "Not implemented" -- recorded finding F11)
 */
#define _GNU_SOURCE
#include "prec.h"
#include "verif_rt.h"
#include "oracle.h"
#include "matgen.h"
#include <unistd.h>
#include <sys/wait.h>

extern REAL G(langs)(char *, SuperMatrix *);     /* not declared in the library headers */
static long ival(rng_t *R, int span) { return (long) rng_int(R, 2 * span + 1) - span; }
static SCALAR sc(long re, long im) { return mk_scalar((double) re, IS_COMPLEX ? (double) im : 0.0); }
static void pnum(FILE *f, SCALAR v) { lc z = to_lc(v); fprintf(f, "[%ld,%ld]", lrintl(creall(z)), lrintl(cimagl(z))); }
static void pvec(FILE *f, const char *k, const SCALAR *v, int n, int inc)
{ int i; fprintf(f, ",\"%s\":[", k); for (i = 0; i < n; ++i) { if (i) fprintf(f, ","); pnum(f, v[(long) i * inc]); } fprintf(f, "]"); }

typedef struct { int m, n, nnz; int_t *colptr, *rowind; SCALAR *val; SuperMatrix A; } smat;
static void gen_sparse(smat *S, int m, int n, rng_t *R, int dens)
{
    int i, j, nnz = 0; S->m = m; S->n = n;
    S->colptr = intMalloc(n + 1); S->rowind = intMalloc(m * n + 1); S->val = scalarMalloc(m * n + 1);
    for (j = 0; j < n; ++j) { S->colptr[j] = nnz; for (i = 0; i < m; ++i) if ((int) rng_int(R, 100) < dens) {
	    long re = ival(R, 2), im = IS_COMPLEX ? ival(R, 2) : 0; S->rowind[nnz] = i; S->val[nnz] = sc(re, im); ++nnz; } }
    S->colptr[n] = nnz; S->nnz = nnz;
    G(Create_CompCol_Matrix)(&S->A, m, n, nnz, S->val, S->rowind, S->colptr, SLU_NC, SLU_DT, SLU_GE);
}
static void pmat(FILE *f, const char *key, const int_t *colptr, const int_t *rowind, const SCALAR *val, int n)
{
    int j, k, first = 1; fprintf(f, ",\"%s\":[", key);
    for (j = 0; j < n; ++j) for (k = colptr[j]; k < colptr[j + 1]; ++k) { lc z = to_lc(val[k]);
	fprintf(f, "%s[%d,%d,%ld,%ld]", first ? "" : ",", (int) rowind[k] + 1, j + 1, lrintl(creall(z)), lrintl(cimagl(z))); first = 0; }
    fprintf(f, "]");
}

int main(int argc, char **argv)
{
    FILE *f; long count, c; rng_t R; int strided;
    if (argc < 4) return 2;
    f = fopen(argv[1], "w"); count = atol(argv[2]); R.s = strtoul(argv[3], 0, 10) * 131 + 9; strided = argc > 4 ? atoi(argv[4]) : 0;
    { int fd = open("/dev/null", 1); if (fd >= 0) dup2(fd, 1); }
    for (c = 0; c < count; ++c) {
	int kind = (int) (c % 5), m = 1 + rng_int(&R, 4), n = 1 + rng_int(&R, 3), i, j; smat S; const char *tr[3] = {"N", "T", "C"}; const char *t = tr[rng_int(&R, 3)];
	SCALAR alpha = sc(ival(&R, 2), IS_COMPLEX ? ival(&R, 1) : 0), beta = sc(rng_int(&R, 3) == 0 ? 0 : ival(&R, 2), 0);
	if (kind == 0) {          /* ---- gemv */
	    int rr, cc, incx = 1, incy = 1, ax, ay, kx, ky, gaps = 1; SCALAR *x, *y, *y0, *xl, *yl0, *yl; const int incs[5] = {1, 2, -1, 3, -2};
	    gen_sparse(&S, m, n, &R, 60);
	    rr = t[0] == 'N' ? m : n; cc = t[0] == 'N' ? n : m;
	    /* the increments the routine implements: any incx with incy = 1 for 'N', any incy with incx = 1 for 'T' / 'C' (the rest is F11) */
	    if (t[0] == 'N') incx = incs[rng_int(&R, 5)]; else incy = incs[rng_int(&R, 5)];
	    ax = incx < 0 ? -incx : incx; ay = incy < 0 ? -incy : incy;
	    kx = incx > 0 ? 0 : -(cc - 1) * incx; ky = incy > 0 ? 0 : -(rr - 1) * incy;
	    x = scalarMalloc(cc * ax + 1); y = scalarMalloc(rr * ay + 1); y0 = scalarMalloc(rr * ay + 1);
	    xl = scalarMalloc(cc + 1); yl0 = scalarMalloc(rr + 1); yl = scalarMalloc(rr + 1);
	    for (i = 0; i < cc * ax; ++i) x[i] = sc(ival(&R, 3), IS_COMPLEX ? ival(&R, 2) : 0);
	    for (i = 0; i < rr * ay; ++i) y0[i] = y[i] = sc(ival(&R, 3), IS_COMPLEX ? ival(&R, 2) : 0);
	    SPG(gemv)((char *) t, alpha, &S.A, x, incx, beta, y, incy);
	    for (i = 0; i < cc; ++i) xl[i] = x[kx + i * incx];                       /* the logical vectors */
	    for (i = 0; i < rr; ++i) { yl0[i] = y0[ky + i * incy]; yl[i] = y[ky + i * incy]; }
	    for (i = 0; i < rr * ay; ++i) if ((i - ky) % ay != 0 && memcmp(&y[i], &y0[i], sizeof(SCALAR))) gaps = 0;   /* elements between the strided entries stay */
	    fprintf(f, "{\"k0\":\"gemv\",\"prec\":\"%s\",\"trans\":\"%s\",\"m\":%d,\"n\":%d,\"incx\":%d,\"incy\":%d,\"gapsok\":%d,\"alpha\":", PLS, t, m, n, incx, incy, gaps); pnum(f, alpha); fprintf(f, ",\"beta\":"); pnum(f, beta);
	    pmat(f, "A", S.colptr, S.rowind, S.val, n); pvec(f, "x", xl, cc, 1); pvec(f, "y", yl0, rr, 1); pvec(f, "out", yl, rr, 1); fprintf(f, "}\n");
	    SUPERLU_FREE(x); SUPERLU_FREE(y); SUPERLU_FREE(y0); SUPERLU_FREE(xl); SUPERLU_FREE(yl0); SUPERLU_FREE(yl); Destroy_CompCol_Matrix(&S.A);
	} else if (kind == 1) {   /* ---- gemm */
	    int rr, cc, nb = 1 + rng_int(&R, 2), ldb, ldc; SCALAR *B, *C, *C0;
	    gen_sparse(&S, m, n, &R, 60);
	    rr = t[0] == 'N' ? m : n; cc = t[0] == 'N' ? n : m; ldb = cc + rng_int(&R, 2); ldc = rr + rng_int(&R, 2);
	    B = scalarMalloc(ldb * nb + 1); C = scalarMalloc(ldc * nb + 1); C0 = scalarMalloc(ldc * nb + 1);
	    for (i = 0; i < ldb * nb; ++i) B[i] = sc(ival(&R, 2), IS_COMPLEX ? ival(&R, 2) : 0);
	    for (i = 0; i < ldc * nb; ++i) C0[i] = C[i] = sc(ival(&R, 2), IS_COMPLEX ? ival(&R, 2) : 0);
	    SPG(gemm)((char *) t, rr, nb, cc, alpha, &S.A, B, ldb, beta, C, ldc);
	    fprintf(f, "{\"k0\":\"gemm\",\"prec\":\"%s\",\"trans\":\"%s\",\"m\":%d,\"k\":%d,\"ncolb\":%d,\"alpha\":", PLS, t, m, n, nb); pnum(f, alpha); fprintf(f, ",\"beta\":"); pnum(f, beta);
	    pmat(f, "A", S.colptr, S.rowind, S.val, n);
	    fprintf(f, ",\"B\":["); for (j = 0; j < nb; ++j) { fprintf(f, "%s[", j ? "," : ""); for (i = 0; i < cc; ++i) { if (i) fprintf(f, ","); pnum(f, B[i + j * ldb]); } fprintf(f, "]"); } fprintf(f, "]");
	    fprintf(f, ",\"C\":["); for (j = 0; j < nb; ++j) { fprintf(f, "%s[", j ? "," : ""); for (i = 0; i < rr; ++i) { if (i) fprintf(f, ","); pnum(f, C0[i + j * ldc]); } fprintf(f, "]"); } fprintf(f, "]");
	    fprintf(f, ",\"out\":["); for (j = 0; j < nb; ++j) { fprintf(f, "%s[", j ? "," : ""); for (i = 0; i < rr; ++i) { if (i) fprintf(f, ","); pnum(f, C[i + j * ldc]); } fprintf(f, "]"); } fprintf(f, "]}\n");
	    SUPERLU_FREE(B); SUPERLU_FREE(C); SUPERLU_FREE(C0); Destroy_CompCol_Matrix(&S.A);
	} else if (kind == 2) {   /* ---- trsv on the factors of an integer matrix A = L0 U0 */
	    int nn = 2 + rng_int(&R, 8), k, ok = 1, msup = 2 + (int) rng_int(&R, 2);   /* up to 9 columns: one-column supernodes before wider ones */ lc *L0 = lc_zeros(nn * nn), *U0 = lc_zeros(nn * nn), *Ld = lc_zeros(nn * nn), *Ud = lc_zeros(nn * nn);
	    char *pat = (char *) calloc(nn * nn, 1); mat_t M; SuperMatrix A, AC, L, U; superlumt_options_t o; Gstat_t G; int_t *pc = intMalloc(nn), *pr = intMalloc(nn), info = 0;
	    SCALAR *x = scalarMalloc(nn), *b = scalarMalloc(nn); const char *ul = rng_int(&R, 2) ? "L" : "U"; rng_t R2 = R;
	    for (i = 0; i < nn; ++i) for (j = 0; j < nn; ++j) {
		if (i == j) { L0[i + j * nn] = 1; U0[i + j * nn] = rng_int(&R, 2) ? 1 : -1; }
		else if (i > j) L0[i + j * nn] = (i == j + 1 || rng_int(&R, 4)) ? (rng_int(&R, 2) ? 1 : -1) : 0;      /* full sub-diagonal: the etree is a chain; some zeros break supernodes */
		else U0[i + j * nn] = (long double) ival(&R, 1) + (IS_COMPLEX ? 1.0iL * (long double) ival(&R, 1) : 0);
	    }
	    for (i = 0; i < nn * nn; ++i) pat[i] = 1;
	    mat_from_pattern(&M, nn, pat, 0, &R2);
	    for (j = 0; j < nn; ++j) for (i = 0; i < nn; ++i) { lc a = 0; for (k = 0; k < nn; ++k) a += L0[i + k * nn] * U0[k + j * nn]; M.val[i + j * nn] = from_lc(a); }
	    G(Create_CompCol_Matrix)(&A, nn, nn, M.nnz, M.val, M.rowind, M.colptr, SLU_NC, SLU_DT, SLU_GE);
	    for (i = 0; i < nn; ++i) pc[i] = i;
	    vrt_ienv[1] = 2; vrt_ienv[2] = 1; vrt_ienv[3] = msup;
	    StatAlloc(nn, 1, 2, 1, &G); StatInit(nn, 1, &G);
	    PG(gstrf_init)(1, DOFACT, NOTRANS, NO, 2, 1, 0.0, NO, 0.0, pc, pr, NULL, 0, &A, &AC, &o, &G);
	    PG(gstrf)(&o, &AC, pr, &L, &U, &G, &info);
	    if (info == 0 && !extract_LU(&L, &U, nn, Ld, Ud)) {
		for (i = 0; i < nn * nn; ++i) { lc z = ul[0] == 'L' ? Ld[i] : Ud[i]; if (creall(z) != rintl(creall(z)) || cimagl(z) != rintl(cimagl(z))) ok = 0; }
		for (i = 0; i < nn; ++i) { lc d = Ud[i + i * nn]; if (!(cabsl(d) == 1.0L)) ok = 0; }
		if (ok) {
		    for (i = 0; i < nn; ++i) b[i] = x[i] = sc(ival(&R, 3), IS_COMPLEX ? ival(&R, 2) : 0);
		    SPG(trsv)((char *) ul, (char *) t, ul[0] == 'L' ? "U" : "N", &L, &U, x, &info);
		    fprintf(f, "{\"k0\":\"trsv\",\"prec\":\"%s\",\"uplo\":\"%s\",\"trans\":\"%s\",\"n\":%d,\"info\":%ld,\"T\":[", PLS, ul, t, nn, (long) info);
		    for (i = 0; i < nn; ++i) { fprintf(f, "%s[", i ? "," : ""); for (j = 0; j < nn; ++j) { lc z = ul[0] == 'L' ? Ld[i + j * nn] : Ud[i + j * nn];
			    fprintf(f, "%s[%ld,%ld]", j ? "," : "", lrintl(creall(z)), lrintl(cimagl(z))); } fprintf(f, "]"); }
		    fprintf(f, "]"); pvec(f, "b", b, nn, 1);
		    {   /* the result must be integral as well */
			int integral = 1; for (i = 0; i < nn; ++i) { lc z = to_lc(x[i]); if (creall(z) != rintl(creall(z)) || cimagl(z) != rintl(cimagl(z))) integral = 0; }
			fprintf(f, ",\"integral\":%d", integral);
		    }
		    pvec(f, "out", x, nn, 1); fprintf(f, "}\n");
		}
	    }
	    free(L0); free(U0); free(Ld); free(Ud); SUPERLU_FREE(x); SUPERLU_FREE(b);
	} else if (kind == 3) {   /* ---- norms (axis-aligned data: |z| is an integer) */
	    smat S2; int k2; gen_sparse(&S2, m, n, &R, 70);
	    for (k2 = 0; k2 < S2.nnz; ++k2) { lc z = to_lc(S2.val[k2]); if (IS_COMPLEX && creall(z) != 0 && cimagl(z) != 0) S2.val[k2] = sc(lrintl(creall(z)), 0); }
	    fprintf(f, "{\"k0\":\"langs\",\"prec\":\"%s\",\"m\":%d,\"n\":%d,\"nmax\":%ld,\"none\":%ld,\"ninf\":%ld", PLS, m, n,
		    lrint((double) G(langs)("M", &S2.A)), lrint((double) G(langs)("1", &S2.A)), lrint((double) G(langs)("I", &S2.A)));
	    pmat(f, "A", S2.colptr, S2.rowind, S2.val, n); fprintf(f, "}\n");
	    Destroy_CompCol_Matrix(&S2.A);
	} else {                  /* ---- compressed rows -> compressed columns, and copy */
	    smat S3; SCALAR *at; int_t *ri, *cp; SuperMatrix Bc; gen_sparse(&S3, m, n, &R, 60);
	    if (c % 2) {
		/* view the CSC arrays as the CSR arrays of the transpose (n x m) and convert */
		G(CompRow_to_CompCol)(n, m, S3.nnz, S3.val, S3.rowind, S3.colptr, &at, &ri, &cp);
		fprintf(f, "{\"k0\":\"r2c\",\"prec\":\"%s\",\"m\":%d,\"n\":%d", PLS, n, m);
		{   /* the transpose's entries, listed from the CSR arrays */
		    int jj, k3, first = 1; fprintf(f, ",\"A\":["); for (jj = 0; jj < n; ++jj) for (k3 = S3.colptr[jj]; k3 < S3.colptr[jj + 1]; ++k3) { lc z = to_lc(S3.val[k3]);
			fprintf(f, "%s[%d,%d,%ld,%ld]", first ? "" : ",", jj + 1, (int) S3.rowind[k3] + 1, lrintl(creall(z)), lrintl(cimagl(z))); first = 0; } fprintf(f, "]");
		}
		pmat(f, "out", cp, ri, at, m); fprintf(f, "}\n");
		SUPERLU_FREE(at); SUPERLU_FREE(ri); SUPERLU_FREE(cp);
	    } else {
		SCALAR *v2 = scalarMalloc(S3.nnz + 1); int_t *r2 = intMalloc(S3.nnz + 1), *c2 = intMalloc(n + 1);
		G(Create_CompCol_Matrix)(&Bc, m, n, S3.nnz, v2, r2, c2, SLU_NC, SLU_DT, SLU_GE);
		G(Copy_CompCol_Matrix)(&S3.A, &Bc);
		fprintf(f, "{\"k0\":\"copy\",\"prec\":\"%s\",\"m\":%d,\"n\":%d", PLS, m, n); pmat(f, "A", S3.colptr, S3.rowind, S3.val, n); pmat(f, "out", c2, r2, v2, n); fprintf(f, "}\n");
		Destroy_CompCol_Matrix(&Bc);
	    }
	    Destroy_CompCol_Matrix(&S3.A);
	}
    }
    fclose(f);
    if (strided) {   /* non-unit increments: every case in a child, its fate is reported on stdout */
	int inc[4] = {2, -1, -2, 3}, k; const char *tr2[2] = {"N", "T"};
	for (k = 0; k < 8; ++k) {
	    pid_t pid = fork(); int st = 0;
	    if (pid == 0) { smat S; SCALAR x[32], y[32]; int i; rng_t R3; R3.s = 77 + k; gen_sparse(&S, 3, 3, &R3, 80);
		for (i = 0; i < 32; ++i) { x[i] = sc(1, 0); y[i] = sc(2, 0); }
		SPG(gemv)((char *) tr2[k % 2], sc(1, 0), &S.A, x + 8, k % 2 ? inc[k / 2] : 1, sc(1, 0), y + 8, k % 2 ? 1 : inc[k / 2]); _exit(0); }
	    waitpid(pid, &st, 0);
	    fprintf(stderr, "STRIDED trans=%s inc=%d status=%d\n", tr2[k % 2], inc[k / 2], WIFEXITED(st) ? WEXITSTATUS(st) : -WTERMSIG(st));
	}
    }
    if (strided) {   /* the Frobenius norm */
	pid_t pid = fork(); int st = 0;
	if (pid == 0) { smat S; rng_t R3; double v; R3.s = 5; gen_sparse(&S, 3, 3, &R3, 80); v = (double) G(langs)("F", &S.A); _exit(v >= 0 ? 0 : 3); }
	waitpid(pid, &st, 0);
	fprintf(stderr, "FROB status=%d\n", WIFEXITED(st) ? WEXITSTATUS(st) : -WTERMSIG(st));
    }
    return 0;
}
