/* Reference ?trsm_ / ?gemm_ for the USE_VENDOR_BLAS build of the library (the configuration the repository's CMake build uses):
 * /repo/CBLAS has the level-1/2 routines only, and ?gstrs calls these two level-3 routines in that configuration.  Only the cases
 * the library uses are implemented (trsm: side L, no transpose, alpha = 1; gemm: no transposes); anything else stops the program. */
#include <stdio.h>
#include <stdlib.h>
#include <complex.h>
static void bad(const char *w) { fprintf(stderr, "ref_blas3: %s not implemented\n", w); abort(); }
static int is(const char *c, char a) { return c[0] == a || c[0] == a + 32; }
#define TRSM(NAME, T) \
int NAME(char *side, char *uplo, char *transa, char *diag, int *m, int *n, T *alpha, T *a, int *lda, T *b, int *ldb) \
{ int i, j, k, M = *m, N = *n, LA = *lda, LB = *ldb, unit = is(diag, 'U'); \
  if (!is(side, 'L') || !is(transa, 'N') || *alpha != (T) 1) bad(#NAME); \
  for (j = 0; j < N; ++j) { T *x = b + (long) j * LB; \
    if (is(uplo, 'L')) { for (k = 0; k < M; ++k) { if (!unit) x[k] = x[k] / a[k + (long) k * LA]; for (i = k + 1; i < M; ++i) x[i] -= x[k] * a[i + (long) k * LA]; } } \
    else { for (k = M - 1; k >= 0; --k) { if (!unit) x[k] = x[k] / a[k + (long) k * LA]; for (i = 0; i < k; ++i) x[i] -= x[k] * a[i + (long) k * LA]; } } } \
  return 0; }
#define GEMM(NAME, T) \
int NAME(char *ta, char *tb, int *m, int *n, int *k, T *alpha, T *a, int *lda, T *b, int *ldb, T *beta, T *c, int *ldc) \
{ int i, j, l; if (!is(ta, 'N') || !is(tb, 'N')) bad(#NAME); \
  for (j = 0; j < *n; ++j) { for (i = 0; i < *m; ++i) c[i + (long) j * *ldc] = (*beta == (T) 0) ? (T) 0 : *beta * c[i + (long) j * *ldc]; \
    for (l = 0; l < *k; ++l) { T t = *alpha * b[l + (long) j * *ldb]; for (i = 0; i < *m; ++i) c[i + (long) j * *ldc] += t * a[i + (long) l * *lda]; } } \
  return 0; }
TRSM(strsm_, float) TRSM(dtrsm_, double) TRSM(ctrsm_, float complex) TRSM(ztrsm_, double complex)
GEMM(sgemm_, float) GEMM(dgemm_, double) GEMM(cgemm_, float complex) GEMM(zgemm_, double complex)
