/* Reference ?trsm_ / ?gemm_ for the USE_VENDOR_BLAS build of the library (the configuration the repository's CMake build uses):
 * /repo/CBLAS has the level-1/2 routines only, and ?gstrs calls these two level-3 routines in that configuration.  ?gemv_ and ?trsv_ are
 * defined here as well: the f2c-translated ones of /repo/CBLAS keep their locals in static storage, i.e. they are not thread-safe, and the
 * repository never combines them with USE_VENDOR_BLAS (CMake sets that flag only when an external, thread-safe BLAS was found); worker
 * threads call both in this configuration.  Only the cases
 * the library uses are implemented (trsm: side L, no transpose, alpha = 1; gemm: no transposes); anything else stops the program. */
#include <stdio.h>
#include <stdlib.h>
#include <complex.h>
static void bad(const char *w) { fprintf(stderr, "ref_blas3: %s not implemented\n", w); abort(); }
static int is(const char *c, char a) { return c[0] == a || c[0] == a + 32; }
#define TRSM(NAME, T) \
int NAME(char *side, char *uplo, char *transa, char *diag, int *m, int *n, T *alpha, T *a, int *lda, T *b, int *ldb) \
{ int i, j, k, M = *m, N = *n, LA = *lda, LB = *ldb, unit = is(diag, 'U'); \
  if (!is(side, 'L') || !is(transa, 'N') || *alpha != (T) 1) bad(#NAME); \
  for (j = 0; j < N; ++j) { T *x = b + (long) j * LB; \
    if (is(uplo, 'L')) { for (k = 0; k < M; ++k) { if (!unit) x[k] = x[k] / a[k + (long) k * LA]; for (i = k + 1; i < M; ++i) x[i] -= x[k] * a[i + (long) k * LA]; } } \
    else { for (k = M - 1; k >= 0; --k) { if (!unit) x[k] = x[k] / a[k + (long) k * LA]; for (i = 0; i < k; ++i) x[i] -= x[k] * a[i + (long) k * LA]; } } } \
  return 0; }
#define GEMM(NAME, T) \
int NAME(char *ta, char *tb, int *m, int *n, int *k, T *alpha, T *a, int *lda, T *b, int *ldb, T *beta, T *c, int *ldc) \
{ int i, j, l; if (!is(ta, 'N') || !is(tb, 'N')) bad(#NAME); \
  for (j = 0; j < *n; ++j) { for (i = 0; i < *m; ++i) c[i + (long) j * *ldc] = (*beta == (T) 0) ? (T) 0 : *beta * c[i + (long) j * *ldc]; \
    for (l = 0; l < *k; ++l) { T t = *alpha * b[l + (long) j * *ldb]; for (i = 0; i < *m; ++i) c[i + (long) j * *ldc] += t * a[i + (long) l * *lda]; } } \
  return 0; }
TRSM(strsm_, float) TRSM(dtrsm_, double) TRSM(ctrsm_, float complex) TRSM(ztrsm_, double complex)
GEMM(sgemm_, float) GEMM(dgemm_, double) GEMM(cgemm_, float complex) GEMM(zgemm_, double complex)

#define CJ_float(x) (x)
#define CJ_double(x) (x)
#define GEMV(NAME, T, CJ) \
int NAME(char *trans, int *m, int *n, T *alpha, T *a, int *lda, T *x, int *incx, T *beta, T *y, int *incy) \
{ int i, j, M = *m, N = *n, LA = *lda, ix = *incx, iy = *incy, leny = is(trans, 'N') ? M : N; \
  if (ix <= 0 || iy <= 0) bad(#NAME " with a non-positive increment"); \
  for (i = 0; i < leny; ++i) y[(long) i * iy] = (*beta == (T) 0) ? (T) 0 : *beta * y[(long) i * iy]; \
  if (is(trans, 'N')) { for (j = 0; j < N; ++j) { T t = *alpha * x[(long) j * ix]; for (i = 0; i < M; ++i) y[(long) i * iy] += t * a[i + (long) j * LA]; } } \
  else { int cj = is(trans, 'C'); for (j = 0; j < N; ++j) { T t = (T) 0; for (i = 0; i < M; ++i) t += (cj ? CJ(a[i + (long) j * LA]) : a[i + (long) j * LA]) * x[(long) i * ix]; y[(long) j * iy] += *alpha * t; } } \
  return 0; }
#define TRSV(NAME, T, CJ) \
int NAME(char *uplo, char *trans, char *diag, int *n, T *a, int *lda, T *x, int *incx) \
{ int i, k, N = *n, LA = *lda, unit = is(diag, 'U'), lower = is(uplo, 'L'), cj = is(trans, 'C'); \
  if (*incx != 1) bad(#NAME " with an increment other than 1"); \
  if (is(trans, 'N')) { \
    if (lower) { for (k = 0; k < N; ++k) { if (!unit) x[k] = x[k] / a[k + (long) k * LA]; for (i = k + 1; i < N; ++i) x[i] -= x[k] * a[i + (long) k * LA]; } } \
    else { for (k = N - 1; k >= 0; --k) { if (!unit) x[k] = x[k] / a[k + (long) k * LA]; for (i = 0; i < k; ++i) x[i] -= x[k] * a[i + (long) k * LA]; } } \
  } else { /* op(A) = A^T or A^H: row k of op(A) is column k of A */ \
    if (lower) { for (k = N - 1; k >= 0; --k) { T t = x[k]; for (i = k + 1; i < N; ++i) t -= (cj ? CJ(a[i + (long) k * LA]) : a[i + (long) k * LA]) * x[i]; \
                                               x[k] = unit ? t : t / (cj ? CJ(a[k + (long) k * LA]) : a[k + (long) k * LA]); } } \
    else { for (k = 0; k < N; ++k) { T t = x[k]; for (i = 0; i < k; ++i) t -= (cj ? CJ(a[i + (long) k * LA]) : a[i + (long) k * LA]) * x[i]; \
                                    x[k] = unit ? t : t / (cj ? CJ(a[k + (long) k * LA]) : a[k + (long) k * LA]); } } } \
  return 0; }
GEMV(sgemv_, float, CJ_float) GEMV(dgemv_, double, CJ_double) GEMV(cgemv_, float complex, conjf) GEMV(zgemv_, double complex, conj)
TRSV(strsv_, float, CJ_float) TRSV(dtrsv_, double, CJ_double) TRSV(ctrsv_, float complex, conjf) TRSV(ztrsv_, double complex, conj)
