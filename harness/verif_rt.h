/* Runtime of the verification harness: event log, schedule perturbation,
 * allocation tracking / fault injection, abort and xerbla interception. */
#ifndef VERIF_RT_H
#define VERIF_RT_H
#include <stdio.h>
#include <stddef.h>

/* ---- tunables returned by the harness' own sp_ienv() ---- */
extern long vrt_ienv[9];          /* index 1..8 */

/* ---- event log ---- */
void  vrt_log_enable(int on);
void  vrt_log_reset(void);
long  vrt_log_count(void);
int   vrt_log_overflowed(void);
long  vrt_idle_polls(void);
void  vrt_log_dump(FILE *f);       /* one JSON object per line */
/* harness-side event with free-form JSON body (already formatted, no braces) */
void  vrt_log_raw(const char *fmt, ...);

/* ---- schedule perturbation ---- */
void  vrt_perturb(int percent, unsigned seed);   /* 0 = off */
void  vrt_perturb_focus(const char *name, int pct, int usec);

/* ---- allocation tracking and fault injection ---- */
typedef struct { void *p; size_t size; const char *file; int line; long id; } vrt_block_t;
void  vrt_mem_track(int on);       /* start/stop recording live blocks */
long  vrt_mem_requests(void);      /* requests seen since vrt_mem_arm/track start */
void  vrt_mem_scope(int on);      /* count / fail requests only while on (inside a library call) */
void  vrt_mem_arm(long fail_from); /* requests with index >= fail_from (1-based) fail; 0 = never */
long  vrt_mem_live(vrt_block_t *out, long max); /* live tracked blocks */
long  vrt_mem_live_count(void);
size_t vrt_mem_live_bytes(void);
void  vrt_mem_forget(void);        /* drop all records (keep blocks) */
long  vrt_mem_foreign_frees(void);
const char *vrt_mem_site(long k, int *line); /* site of k-th request (1-based) in the current window */

/* ---- abort / xerbla ---- */
extern int  vrt_abort_exit_code;   /* exit code used by slu_verif_abort (default 42) */
extern int  vrt_xerbla_count;      /* number of xerbla_ calls */
extern int  vrt_xerbla_info;       /* last *info */
extern char vrt_xerbla_name[16];
void  vrt_xerbla_reset(void);

int   vrt_thread_count(void);      /* entries in /proc/self/task */
int   vrt_thread_count_until(int expect);   /* ... re-read until it has come down to expect (0.5 s at most) */
int   vrt_fd_count(void);
#endif
