/* drv_api: interpreter of call histories against the real library.
 *
 * A script (one command per line, key=value tokens) is executed in a forked
 * child under a watchdog; every library call produces one "Call" record with
 * the abstract state observed through the API (what changed, what stayed
 * bit-identical, which info, oracle ratios), interleaved in the same ndjson
 * stream with the pipeline events of the SLU_MT_VERIF hooks.  The records are
 * validated by TLC against SluApi (history/argument/fault replays) and the
 * embedded factorization events against SluPipeTrace.
 *
 * usage: drv_api script out.ndjson [timeout_s]
 * commands: ienv, mat, vals, permc, gssv, gssvx, destroy, sinit, sfactor, ssolve, scon, sdropac, sfinal, fail, track, perturb, log
 */
#define _GNU_SOURCE
#include "prec.h"
#include "verif_rt.h"
#include "oracle.h"
#include "matgen.h"
#include <unistd.h>
#include <sys/wait.h>
#include <signal.h>
#include <time.h>

#define WORKMAX (32L << 20)
#define GUARD 4096
/* ------------------------------------------------------------------ tiny key=value parser */
typedef struct { char *k[64], *v[64]; int n; } kv_t;
static void kv_parse(char *line, kv_t *K)
{
    char *tok, *save = 0; K->n = 0;
    for (tok = strtok_r(line, " \t\n", &save); tok && K->n < 64; tok = strtok_r(0, " \t\n", &save)) {
	char *eq = strchr(tok, '=');
	if (eq) { *eq = 0; K->k[K->n] = tok; K->v[K->n] = eq + 1; } else { K->k[K->n] = tok; K->v[K->n] = ""; }
	K->n++;
    }
}
static const char *kv_s(kv_t *K, const char *key, const char *def)
{ int i; for (i = 0; i < K->n; ++i) if (!strcmp(K->k[i], key)) return K->v[i]; return def; }
static long kv_i(kv_t *K, const char *key, long def) { const char *s = kv_s(K, key, 0); return s ? atol(s) : def; }
static double kv_d(kv_t *K, const char *key, double def) { const char *s = kv_s(K, key, 0); return s ? atof(s) : def; }

/* ------------------------------------------------------------------ the system under test */
static struct {
    int n, nnz, stype, ver, have; char *pat;
    SCALAR *val, *val0; int_t *ind, *ptr;      /* storage arrays handed to the library / pristine copy of the values */
    lc *Ad;                                    /* dense original matrix (user orientation), current version */
    SuperMatrix A;
    int_t *perm_c, *perm_r, *etree, *colcnt, *part; int have_pc;
    SuperMatrix L, U; int haveLU, LUuser;      /* factors present; living in the user work buffer */
    equed_t equed; REAL *R, *C; int factver;   /* version and scaling the factors belong to */
    void *work; long lwork; char *workbase;
    superlumt_options_t opt;
    /* the computational routines used as in EXAMPLE/pdrepeat.c: a "session" p?gstrf_init .. p?gstrf .. ?gstrs .. pxgstrf_finalize */
    superlumt_options_t sopt; SuperMatrix AC; int ses_sym, ses_ac, ses_armed, ses_refact, ses_usepr, ses_P; long ses_lwork;
} S;

static unsigned long cks_perm(const int_t *p, int n) { return p ? fnv(p, sizeof(int_t) * n) : 0; }
static int is_perm(const int_t *p, int n)
{ int i, ok = 1; char *seen = (char *) calloc(n + 1, 1); for (i = 0; i < n; ++i) { if (p[i] < 0 || p[i] >= n || seen[p[i]]) { ok = 0; break; } seen[p[i]] = 1; } free(seen); return ok; }

static void destroy_LU(void);
static void build_dense(void)
{
    int j, k;
    free(S.Ad); S.Ad = lc_zeros((long) S.n * S.n);
    for (j = 0; j < S.n; ++j) for (k = S.ptr[j]; k < S.ptr[j + 1]; ++k) {
	if (S.stype == 0) S.Ad[S.ind[k] + (long) j * S.n] += to_lc(S.val0[k]);
	else S.Ad[j + (long) S.ind[k] * S.n] += to_lc(S.val0[k]);
    }
}

static void cmd_mat(kv_t *K)
{
    rng_t R; const char *gen = kv_s(K, "gen", "random"); int n = (int) kv_i(K, "n", 8), i, j, k; char *pat = 0; mat_t M; int sing = 0;
    int vstyle = (int) kv_i(K, "vstyle", 0); const char *sc = kv_s(K, "scale", "none");
    R.s = (unsigned long) kv_i(K, "seed", 1) * 7919ul + 17;
    if (S.have) {   /* drop the previous system */
	destroy_LU();
	if (S.ses_ac) { Destroy_CompCol_Permuted(&S.AC); S.ses_ac = 0; }
	if (S.ses_sym) { SUPERLU_FREE(S.sopt.etree); SUPERLU_FREE(S.sopt.colcnt_h); SUPERLU_FREE(S.sopt.part_super_h); S.ses_sym = 0; }
	S.ses_armed = 0;
	SUPERLU_FREE(S.val); SUPERLU_FREE(S.ind); SUPERLU_FREE(S.ptr); free(S.val0); free(S.pat); free(S.Ad); S.Ad = 0;
	Destroy_SuperMatrix_Store(&S.A);
	SUPERLU_FREE(S.perm_c); SUPERLU_FREE(S.perm_r); SUPERLU_FREE(S.etree); SUPERLU_FREE(S.colcnt); SUPERLU_FREE(S.part); free(S.R); free(S.C);
	S.have = 0;
    }
    if (!strcmp(gen, "random")) pat = pat_random(n, (int) kv_i(K, "dens", 200), (int) kv_i(K, "fulldiag", 0), &R);
    else if (!strcmp(gen, "banded")) pat = pat_banded(n, (int) kv_i(K, "kl", 1), (int) kv_i(K, "ku", 1));
    else if (!strcmp(gen, "arrow")) pat = pat_arrow(n, (int) kv_i(K, "last", 1));
    else if (!strcmp(gen, "grid")) { int g = (int) kv_i(K, "k", 3); pat = pat_grid(g); n = g * g; }
    else if (!strcmp(gen, "forest")) {
	int par[4096], np = 0; char *s2 = 0, *t, *v = strdup(kv_s(K, "par", "2"));
	for (t = strtok_r(v, ",", &s2); t && np < 4095; t = strtok_r(0, ",", &s2)) par[++np] = atoi(t);
	n = np; pat = pat_forest(n, par, (int) kv_i(K, "dens", 60), (int) kv_i(K, "lowfill", 50), &R); free(v);
    } else if (!strcmp(gen, "pattern")) {
	const char *ps = kv_s(K, "pat", ""); pat = (char *) calloc((size_t) n * n, 1);
	for (i = 0; i < n; ++i) for (j = 0; j < n; ++j) pat[i + (long) j * n] = ps[i * n + j] == '1';
    } else { fprintf(stderr, "unknown generator\n"); _exit(3); }
    mat_from_pattern(&M, n, pat, vstyle, &R);
    /* badly scaled rows / columns to force each equilibration outcome */
    for (j = 0; j < n; ++j) for (k = M.colptr[j]; k < M.colptr[j + 1]; ++k) {
	int r = M.rowind[k]; double f = 1.0;
	if (!strcmp(sc, "row") || !strcmp(sc, "both")) f *= ldexp(1.0, ((r * 5) % 9 - 4) * 6);
	if (!strcmp(sc, "col") || !strcmp(sc, "both")) f *= ldexp(1.0, ((j * 7) % 11 - 5) * 5);
	if (f != 1.0) M.val[k] = from_lc(to_lc(M.val[k]) * (lc) f);
    }
    /* scalings that force the ONE-SIDED outcomes: "colonly": every row keeps its largest entry of magnitude [1,2) (so the row
       scale factors are balanced) while the columns that hold no row maximum shrink by 2^-6k (equed = COL); "rowonly" is the
       transposed construction (equed = ROW, the column maxima of the row-scaled matrix stay >= 1/2) */
    if (!strcmp(sc, "colonly") || !strcmp(sc, "rowonly")) {
	int byrow = !strcmp(sc, "colonly"); double *mx = (double *) calloc(n + 1, sizeof(double)); int *arg = (int *) malloc(sizeof(int) * (n + 1)); char *keep = (char *) calloc(n + 1, 1);
	for (i = 0; i < n; ++i) arg[i] = -1;
	for (j = 0; j < n; ++j) for (k = M.colptr[j]; k < M.colptr[j + 1]; ++k) { int a = byrow ? (int) M.rowind[k] : j; double v = (double) cabsl(to_lc(M.val[k])); if (v > mx[a]) mx[a] = v; }
	for (j = 0; j < n; ++j) for (k = M.colptr[j]; k < M.colptr[j + 1]; ++k) { int a = byrow ? (int) M.rowind[k] : j; int e2; if (mx[a] > 0) { frexp(mx[a], &e2); M.val[k] = from_lc(to_lc(M.val[k]) * (lc) ldexp(1.0, 1 - e2)); } }
	for (i = 0; i < n; ++i) mx[i] = 0;
	for (j = 0; j < n; ++j) for (k = M.colptr[j]; k < M.colptr[j + 1]; ++k) { int a = byrow ? (int) M.rowind[k] : j, b = byrow ? j : (int) M.rowind[k]; double v = (double) cabsl(to_lc(M.val[k])); if (v > mx[a]) { mx[a] = v; arg[a] = b; } }
	for (i = 0; i < n; ++i) if (arg[i] >= 0) keep[arg[i]] = 1;
	for (j = 0; j < n; ++j) for (k = M.colptr[j]; k < M.colptr[j + 1]; ++k) { int b = byrow ? j : (int) M.rowind[k]; if (!keep[b]) M.val[k] = from_lc(to_lc(M.val[k]) * (lc) ldexp(1.0, -6 * (1 + (b * 7) % 7))); }
	free(mx); free(arg); free(keep);
    }
    {   int tiny = (int) kv_i(K, "tiny", 0);     /* tiny=E: A(0,0) *= 2^-E -- with u = 0 and the natural order the first pivot is tiny, the factors inaccurate,
						   and the refinement of ?gsrfs needs all its ITMAX steps */
	if (tiny > 0) for (k = M.colptr[0]; k < M.colptr[1]; ++k) if (M.rowind[k] == 0) M.val[k] = from_lc(to_lc(M.val[k]) * (lc) ldexp(1.0, -tiny));
    }
    {   const char *zc = kv_s(K, "zc", 0);     /* exactly zero columns (explicit zeros) */
	if (zc) { char *v = strdup(zc), *s2 = 0, *t; sing = 1; for (t = strtok_r(v, ",", &s2); t; t = strtok_r(0, ",", &s2)) { int c = atoi(t); if (c >= 0 && c < n) for (k = M.colptr[c]; k < M.colptr[c + 1]; ++k) M.val[k] = mk_scalar(0, 0); } free(v); }
    }
    S.n = n; S.nnz = M.nnz; S.pat = pat; S.stype = !strcmp(kv_s(K, "stype", "NC"), "NR"); S.ver = 1; S.have = 1;
    if (S.stype == 0) { S.val = M.val; S.ind = M.rowind; S.ptr = M.colptr; }
    else {   /* compressed rows of the same matrix */
	int_t *rp = intMalloc(n + 1), *ci = intMalloc(M.nnz ? M.nnz : 1), nz = 0; SCALAR *v = scalarMalloc(M.nnz ? M.nnz : 1);
	for (i = 0; i < n; ++i) { rp[i] = nz; for (j = 0; j < n; ++j) if (pat[i + (long) j * n]) {
		for (k = M.colptr[j]; k < M.colptr[j + 1]; ++k) if (M.rowind[k] == i) { ci[nz] = j; v[nz] = M.val[k]; ++nz; } } }
	rp[n] = nz; SUPERLU_FREE(M.val); SUPERLU_FREE(M.rowind); SUPERLU_FREE(M.colptr);
	S.val = v; S.ind = ci; S.ptr = rp;
    }
    S.val0 = (SCALAR *) malloc(sizeof(SCALAR) * (S.nnz ? S.nnz : 1)); memcpy(S.val0, S.val, sizeof(SCALAR) * S.nnz);
    if (S.stype == 0) G(Create_CompCol_Matrix)(&S.A, n, n, S.nnz, S.val, S.ind, S.ptr, SLU_NC, SLU_DT, SLU_GE);
    else G(Create_CompRow_Matrix)(&S.A, n, n, S.nnz, S.val, S.ind, S.ptr, SLU_NR, SLU_DT, SLU_GE);
    build_dense();
    S.perm_c = intMalloc(n); S.perm_r = intMalloc(n); S.etree = intMalloc(n); S.colcnt = intMalloc(n); S.part = intMalloc(n);
    S.R = (REAL *) malloc(sizeof(REAL) * (n + 1)); S.C = (REAL *) malloc(sizeof(REAL) * (n + 1));
    for (i = 0; i < n; ++i) { S.perm_c[i] = i; S.perm_r[i] = i; S.R[i] = 1; S.C[i] = 1; }
    S.have_pc = 1; S.haveLU = 0;      /* (S.equed keeps its value: the caller reuses one equed variable for the next system) */
    vrt_log_raw("\"e\":\"Call\",\"call\":\"mat\",\"n\":%d,\"nnz\":%d,\"stype\":%d,\"sing\":%d,\"live\":%ld", n, S.nnz, S.stype, sing, vrt_mem_live_count());
}

/* new values on the same pattern */
static void cmd_vals(kv_t *K)
{
    rng_t R; int k, zeroed = 0; R.s = (unsigned long) kv_i(K, "seed", 2) * 104729ul + 3;
    for (k = 0; k < S.nnz; ++k) { lc v = to_lc(S.val0[k]); double f = 0.5 + 1.5 * rng_unit(&R); if (rng_int(&R, 4) == 0) f = -f; S.val0[k] = from_lc(v * (lc) f); }
    {   /* zp=K: up to K entries that were PIVOTS of the factorization at hand become exactly zero (column-wise storage; only where the row
	   and the column keep another nonzero and the matrix stays nonsingular): a request to reuse the old row order must then fall back */
	int zp = (int) kv_i(K, "zp", 0), tries = 0, done = 0, n = S.n;
	while (zp > 0 && done < zp && tries++ < 8 * zp && S.haveLU && S.stype == 0 && is_perm(S.perm_r, n) && is_perm(S.perm_c, n)) {
	    /* columns in elimination order: the entry is still the stored value when its column is pivoted only if no earlier column
	       updates it -- certain for the first column, likely for the next ones (leaves of the elimination tree) */
	    int jc = -1, i, kk, at = -1, others = 0, rowothers = 0, j2;
	    for (j2 = 0; j2 < n; ++j2) if (S.perm_c[j2] == (tries - 1) % n) jc = j2;
	    if (jc < 0) continue;
	    for (kk = S.ptr[jc]; kk < S.ptr[jc + 1]; ++kk) { if (S.perm_r[S.ind[kk]] == S.perm_c[jc]) at = kk; else if (cabsl(to_lc(S.val0[kk])) > 0) ++others; }
	    if (at < 0 || !others || cabsl(to_lc(S.val0[at])) == 0) continue;
	    i = S.ind[at];
	    for (j2 = 0; j2 < n; ++j2) if (j2 != jc) for (kk = S.ptr[j2]; kk < S.ptr[j2 + 1]; ++kk) if (S.ind[kk] == i && cabsl(to_lc(S.val0[kk])) > 0) ++rowothers;
	    if (!rowothers) continue;
	    {   SCALAR keep = S.val0[at]; lc *Inv; S.val0[at] = mk_scalar(0, 0); build_dense(); Inv = ref_inverse(n, S.Ad);
		if (!Inv) S.val0[at] = keep; else { long double an = norm1(n, S.Ad) * norm1(n, Inv); free(Inv); if (!(an < 1e6L)) S.val0[at] = keep; else ++done; } }
	}
	zeroed = done;
    }
    memcpy(S.val, S.val0, sizeof(SCALAR) * S.nnz);
    S.ver++; build_dense();
    vrt_log_raw("\"e\":\"Call\",\"call\":\"vals\",\"ver\":%d,\"zeroed\":%d", S.ver, zeroed);
}

static void cmd_permc(kv_t *K)
{
    int order = (int) kv_i(K, "order", -1), i;
    if (order < 0) for (i = 0; i < S.n; ++i) S.perm_c[i] = i;
    else if (S.stype == 0) get_perm_c(order, &S.A, S.perm_c);
    else {   /* the drivers factor the transpose of a row-wise matrix: order its columns */
	SuperMatrix AT; G(Create_CompCol_Matrix)(&AT, S.n, S.n, S.nnz, S.val, S.ind, S.ptr, SLU_NC, SLU_DT, SLU_GE);
	get_perm_c(order, &AT, S.perm_c); Destroy_SuperMatrix_Store(&AT);
    }
    vrt_log_raw("\"e\":\"Call\",\"call\":\"permc\",\"order\":%d,\"isperm\":%d", order, is_perm(S.perm_c, S.n));
}

/* ------------------------------------------------------------------ right-hand sides */
static void make_rhs(int nrhs, int ldb, int op, unsigned long seed, SCALAR **b, lc **Xtrue, lc **B0)
{
    int n = S.n, i, j, c; rng_t R; R.s = seed * 31 + 5;
    *b = scalarMalloc((long) ldb * (nrhs ? nrhs : 1)); *Xtrue = lc_zeros((long) n * (nrhs ? nrhs : 1)); *B0 = lc_zeros((long) n * (nrhs ? nrhs : 1));
    for (i = 0; i < ldb * (nrhs ? nrhs : 1); ++i) (*b)[i] = mk_scalar(777.0 + (i % 13), IS_COMPLEX ? -3.0 : 0.0);   /* padding pattern */
    for (c = 0; c < nrhs; ++c) {
	for (j = 0; j < n; ++j) (*Xtrue)[j + (long) c * n] = (lc) (1.0L + (long double) rng_int(&R, 5)) * (rng_int(&R, 2) ? 1 : -1) + (IS_COMPLEX ? 0.5iL * (long double) rng_int(&R, 3) : 0);
	for (i = 0; i < n; ++i) {
	    lc acc = 0; for (j = 0; j < n; ++j) acc += op_entry(S.Ad, n, op, i, j) * (*Xtrue)[j + (long) c * n];
	    (*b)[i + (long) c * ldb] = from_lc(acc); (*B0)[i + (long) c * n] = to_lc((*b)[i + (long) c * ldb]);
	}
    }
}
static int padding_ok(const SCALAR *b, int nrhs, int ldb)
{
    int n = S.n, i, c;
    for (c = 0; c < nrhs; ++c) for (i = n; i < ldb; ++i) {
	long idx = i + (long) c * ldb; SCALAR e = mk_scalar(777.0 + (idx % 13), IS_COMPLEX ? -3.0 : 0.0);
	if (memcmp(&b[idx], &e, sizeof(SCALAR))) return 0;
    }
    return 1;
}

/* the caller passes the original (unscaled) values again before a new factorization */
/* (the caller's equed VARIABLE keeps whatever the previous call left in it: it is an output of every call that factors, and the
   library has to set it -- a caller who goes from EQUILIBRATE to DOFACT to FACTORED with one variable relies on that) */
static void restore_values(void)
{
    memcpy(S.val, S.val0, sizeof(SCALAR) * S.nnz);
}
static void destroy_LU(void)
{
    if (!S.haveLU) return;
    if (S.LUuser) { Destroy_SuperMatrix_Store(&S.L); Destroy_SuperMatrix_Store(&S.U); /* arrays live in work[] */ }
    else { Destroy_SuperNode_SCP(&S.L); Destroy_CompCol_NCP(&S.U); }
    S.haveLU = 0;
}

/* componentwise backward error of X for op(A) X = B, long double */
static long double omega_of(const lc *A, int op, const lc *X, const lc *B, int n, int nrhs)
{
    long double w = 0; int i, j, c;
    for (c = 0; c < nrhs; ++c) for (i = 0; i < n; ++i) {
	lc acc = 0; long double den = cabsl(B[i + (long) c * n]), num;
	for (j = 0; j < n; ++j) { lc a = op_entry(A, n, op, i, j), x = X[j + (long) c * n]; acc += a * x; den += cabsl(a) * cabsl(x); }
	num = cabsl(B[i + (long) c * n] - acc);
	if (num > 0) { long double r = den > 0 ? num / den : HUGE_VALL; if (r > w) w = r; }
    }
    return w;
}

static unsigned long out_hash(const SCALAR *x, int ldx, int nrhs, long info, double rcond, double rpg, const REAL *ferr, const REAL *berr);
static unsigned long gssv_hash(const SCALAR *b, int ldb, int nrhs, long info) { return out_hash(b, ldb, info == 0 ? nrhs : 0, info, 0, 0, 0, 0); }
/* ------------------------------------------------------------------ simple driver */
static void cmd_gssv(kv_t *K)
{
    int P = (int) kv_i(K, "P", 1), nrhs = (int) kv_i(K, "nrhs", 1), ldb = S.n + (int) kv_i(K, "pad", 0), n = S.n, i;
    SCALAR *b, *bcopy; lc *Xtrue, *B0; SuperMatrix B; int_t info = -99;
    unsigned long ck[3], ckb; long live0, live1; int thr0, thr1, fd0, fd1;
    int_t *pc_in = intMalloc(n);
    memcpy(pc_in, S.perm_c, sizeof(int_t) * n);
    make_rhs(nrhs, ldb, 0, (unsigned long) kv_i(K, "seed", 1), &b, &Xtrue, &B0);
    bcopy = (SCALAR *) malloc(sizeof(SCALAR) * ldb * (nrhs ? nrhs : 1)); memcpy(bcopy, b, sizeof(SCALAR) * ldb * (nrhs ? nrhs : 1));
    G(Create_Dense_Matrix)(&B, n, nrhs, b, ldb, SLU_DN, SLU_DT, SLU_GE);
    destroy_LU();
    restore_values();
    ck[0] = fnv(S.val, sizeof(SCALAR) * S.nnz); ck[1] = fnv(S.ind, sizeof(int_t) * S.nnz); ck[2] = fnv(S.ptr, sizeof(int_t) * (n + 1));
    live0 = vrt_mem_live_count(); thr0 = vrt_thread_count(); fd0 = vrt_fd_count(); vrt_xerbla_reset();
    vrt_log_raw("\"e\":\"CallBegin\",\"call\":\"gssv\"");
    vrt_mem_scope(1);
    PG(gssv)(P, &S.A, S.perm_c, S.perm_r, &S.L, &S.U, &B, &info);
    vrt_mem_scope(0);
    thr1 = vrt_thread_count_until(thr0); fd1 = vrt_fd_count(); live1 = vrt_mem_live_count();
    {
	int Aunch = ck[0] == fnv(S.val, sizeof(SCALAR) * S.nnz) && ck[1] == fnv(S.ind, sizeof(int_t) * S.nnz) && ck[2] == fnv(S.ptr, sizeof(int_t) * (n + 1));
	int Bunch = !memcmp(bcopy, b, sizeof(SCALAR) * ldb * (nrhs ? nrhs : 1));
	long resid = -1, recon = -1, maxl = -1; int extract = -1;
	if (info >= 0 && info <= n) { S.haveLU = 1; S.LUuser = 0; }
	if (info == 0) {
	    lc *Ld = lc_zeros((long) n * n), *Ud = lc_zeros((long) n * n), *Af = S.stype == 0 ? S.Ad : dense_op(n, S.Ad, 1);
	    extract = extract_LU(&S.L, &S.U, n, Ld, Ud);
	    if (!extract && is_perm(S.perm_r, n) && is_perm(S.perm_c, n)) {
		long double ml = 0, rr = recon_ratio(n, Af, S.perm_r, S.perm_c, Ld, Ud, BOUND_U, &ml);
		lc *W = bound_matrix(n, S.perm_r, S.perm_c, Ld, Ud), *Xd = lc_zeros((long) n * (nrhs ? nrhs : 1)); int c;
		for (c = 0; c < nrhs; ++c) for (i = 0; i < n; ++i) Xd[i + (long) c * n] = to_lc(b[i + (long) c * ldb]);
		recon = permille(rr); maxl = permille(ml / (IS_COMPLEX ? 1.41421356237309504880L * (1.0L + 1e-12L) : 1.0L));
		/* the factors are those of A (NC) or of A' (NR): the bound matrix follows */
		resid = permille(resid_ratio(n, nrhs, Af, S.stype == 0 ? 0 : 1, W, Xd, B0, 3 * n, BOUND_U));
		free(W); free(Xd);
	    }
	    free(Ld); free(Ud); if (Af != S.Ad) free(Af);
	}
	vrt_log_raw("\"e\":\"Call\",\"call\":\"gssv\",\"P\":%d,\"n\":%d,\"stype\":%d,\"nrhs\":%d,\"pad\":%d,\"ver\":%d,\"info\":%ld,\"xerbla\":%d,\"xinfo\":%d,"
		    "\"Aunch\":%d,\"Bunch\":%d,\"padok\":%d,\"permc\":%d,\"permr\":%d,\"extract\":%d,\"recon\":%ld,\"maxl\":%ld,\"resid\":%ld,"
		    "\"thr0\":%d,\"thr1\":%d,\"fd0\":%d,\"fd1\":%d,\"live0\":%ld,\"live1\":%ld,\"outh\":\"%lx\"",
		    P, n, S.stype, nrhs, ldb - n, S.ver, (long) info, vrt_xerbla_count, vrt_xerbla_info, Aunch, Bunch, padding_ok(b, nrhs, ldb),
		    is_perm(S.perm_c, n), (info >= 0 && info <= n) ? is_perm(S.perm_r, n) : -1, extract, recon, maxl, resid, thr0, thr1, fd0, fd1, live0, live1,
		    (info >= 0 && info <= n) ? gssv_hash(b, ldb, nrhs, info) : (unsigned long) info);
    }
    S.factver = S.ver; S.equed = NOEQUIL;
    Destroy_SuperMatrix_Store(&B); SUPERLU_FREE(b); free(bcopy); free(Xtrue); free(B0); SUPERLU_FREE(pc_in);
}

#if PREC == 1 || PREC == 3
static REAL mach_eps(void) { return (REAL) slamch_("E"); }     /* declared in the library headers */
#else
static REAL mach_eps(void) { return (REAL) dlamch_("E"); }
#endif
/* hash of everything a call hands back (bitwise): X, info, factors, permutations, scalars */
static unsigned long out_hash(const SCALAR *x, int ldx, int nrhs, long info, double rcond, double rpg, const REAL *ferr, const REAL *berr)
{
    unsigned long h = 1469598103934665603ul ^ (unsigned long) info; int c, n = S.n;
    for (c = 0; c < nrhs; ++c) h = h * 1099511628211ul ^ fnv(x + (long) c * ldx, sizeof(SCALAR) * n);
    if (info >= 0 && info <= n + 1) {
	h = h * 31 + fnv(S.perm_r, sizeof(int_t) * n); h = h * 31 + fnv(S.perm_c, sizeof(int_t) * n);
	if (S.haveLU) {
	    SCPformat *Ls = (SCPformat *) S.L.Store; NCPformat *Us = (NCPformat *) S.U.Store; int j;
	    for (j = 0; j < n; ++j) {
		h = h * 31 + fnv((SCALAR *) Ls->nzval + Ls->nzval_colbeg[j], sizeof(SCALAR) * (Ls->nzval_colend[j] - Ls->nzval_colbeg[j]));
		h = h * 31 + fnv((SCALAR *) Us->nzval + Us->colbeg[j], sizeof(SCALAR) * (Us->colend[j] - Us->colbeg[j]));
		h = h * 31 + fnv(Us->rowind + Us->colbeg[j], sizeof(int_t) * (Us->colend[j] - Us->colbeg[j]));
	    }
	    for (j = 0; j <= Ls->nsuper; ++j) { int f = Ls->sup_to_colbeg[j]; h = h * 31 + fnv(Ls->rowind + Ls->rowind_colbeg[f], sizeof(int_t) * (Ls->rowind_colend[f] - Ls->rowind_colbeg[f])); }
	}
	if (info == 0 || info == n + 1) { h = h * 31 + fnv(&rcond, sizeof rcond); h = h * 31 + fnv(&rpg, sizeof rpg);
	    if (nrhs > 0 && ferr) { h = h * 31 + fnv(ferr, sizeof(REAL) * nrhs); h = h * 31 + fnv(berr, sizeof(REAL) * nrhs); } }
    }
    return h;
}
/* ------------------------------------------------------------------ expert driver */
/* nothing outside [work, work+lwork) may be written: the guard zones and the unused tail keep their fill */
static int guards_ok(long lwork)
{
    long i, off = (char *) S.work - S.workbase; unsigned char *w = (unsigned char *) S.workbase;
    for (i = 0; i < off; ++i) if (w[i] != 0x5a) return 0;
    for (i = 0; i < GUARD; ++i) if (w[GUARD + WORKMAX + i] != 0x5a) return 0;
    if (lwork > 0 && off + lwork < GUARD + WORKMAX) for (i = off + lwork; i < off + lwork + 4096 && i < GUARD + WORKMAX; ++i) if (w[i] != 0x5a) return 0;
    return 1;
}
/* a fresh factorization in the caller's workspace: the buffer starts woff bytes into the arena (callers carve workspaces out of pools:
   nothing documents an alignment), and everything OUTSIDE [work, work + lwork) gets the guard fill again (the inside keeps whatever the
   previous call left there: stale contents are part of what C18 quantifies over) */
static void place_work(long lwork, int woff)
{
    long off = GUARD + woff;
    S.work = S.workbase + off;
    memset(S.workbase, 0x5a, off);
    if (off + lwork < GUARD + WORKMAX) memset(S.workbase + off + lwork, 0x5a, GUARD + WORKMAX - off - lwork);
}
static trans_t tr_of(const char *s) { return s[0] == 'T' ? TRANS : s[0] == 'C' ? CONJ : NOTRANS; }
static void cmd_gssvx(kv_t *K)
{
    int P = (int) kv_i(K, "P", 1), nrhs = (int) kv_i(K, "nrhs", 1), n = S.n, ldb = n + (int) kv_i(K, "pad", 0), ldx = n + (int) kv_i(K, "padx", 0), i, j, c;
    const char *facts = kv_s(K, "fact", "DOFACT"), *trs = kv_s(K, "trans", "N"); int op = trs[0] == 'T' ? 1 : trs[0] == 'C' ? 2 : 0;
    fact_t fact = !strcmp(facts, "FACTORED") ? FACTORED : !strcmp(facts, "EQUILIBRATE") ? EQUILIBRATE : DOFACT;
    int refact = (int) kv_i(K, "refact", 0), usepr = (int) kv_i(K, "usepr", 0), sym = (int) kv_i(K, "sym", 0);
    const char *lws = kv_s(K, "lwork", "0"); int autopct = !strncmp(lws, "auto", 4) ? atoi(lws + 4) : 0;
    long lwork = autopct ? 1 : kv_i(K, "lwork", 0); double u = kv_d(K, "u", 1.0);
    SCALAR *b, *x, *bin; lc *Xtrue, *B0; SuperMatrix B, X; int_t info = -99;
    REAL rpg = -1, rcond = -1, *ferr = (REAL *) calloc(nrhs + 1, sizeof(REAL)), *berr = (REAL *) calloc(nrhs + 1, sizeof(REAL));
    superlu_memusage_t mu; unsigned long ckv, cki, ckp, ckpr, ckpc, ckL = 0; long live0, live1; int thr0, thr1;
    SCALAR *vin = (SCALAR *) malloc(sizeof(SCALAR) * (S.nnz + 1)); equed_t eq_in = S.equed;
    memset(&mu, 0, sizeof mu);
    if (fact != FACTORED) { restore_values(); eq_in = NOEQUIL; }
    memcpy(vin, S.val, sizeof(SCALAR) * S.nnz);
    make_rhs(nrhs, ldb, op, (unsigned long) kv_i(K, "seed", 1), &b, &Xtrue, &B0);
    if (fact == FACTORED && S.haveLU) {
	/* the caller must pass B for the system that was factored: scaled A is in place, B is given unscaled */
    }
    bin = (SCALAR *) malloc(sizeof(SCALAR) * ldb * (nrhs ? nrhs : 1)); memcpy(bin, b, sizeof(SCALAR) * ldb * (nrhs ? nrhs : 1));
    x = scalarMalloc((long) ldx * (nrhs ? nrhs : 1));
    for (i = 0; i < ldx * (nrhs ? nrhs : 1); ++i) x[i] = mk_scalar(-555.0, 0);
    G(Create_Dense_Matrix)(&B, n, nrhs, b, ldb, SLU_DN, SLU_DT, SLU_GE);
    G(Create_Dense_Matrix)(&X, n, nrhs, x, ldx, SLU_DN, SLU_DT, SLU_GE);
    if (fact != FACTORED && !refact && lwork != -1) destroy_LU();      /* a workspace query has no side effects: existing factors stay */
    if (autopct && fact != FACTORED && !refact) {
	/* size the caller's workspace as a user would: ask the library (lwork = -1), take autopct % of its estimate */
	superlumt_options_t q; superlu_memusage_t qm; int_t qinfo = 0; SuperMatrix QB, QX; equed_t qe = NOEQUIL; REAL qr = 0, qc = 0;
	SCALAR *qb = scalarMalloc(n), *qx = scalarMalloc(n); SCALAR *vsave = (SCALAR *) malloc(sizeof(SCALAR) * (S.nnz + 1));
	int_t *pcs = intMalloc(n), *prs = intMalloc(n);
	memcpy(vsave, S.val, sizeof(SCALAR) * S.nnz); memcpy(pcs, S.perm_c, sizeof(int_t) * n); memcpy(prs, S.perm_r, sizeof(int_t) * n);
	for (i = 0; i < n; ++i) qb[i] = mk_scalar(1, 0);
	G(Create_Dense_Matrix)(&QB, n, 1, qb, n, SLU_DN, SLU_DT, SLU_GE); G(Create_Dense_Matrix)(&QX, n, 1, qx, n, SLU_DN, SLU_DT, SLU_GE);
	memset(&q, 0, sizeof q); memset(&qm, 0, sizeof qm);
	q.nprocs = P; q.fact = DOFACT; q.trans = NOTRANS; q.refact = NO; q.panel_size = sp_ienv(1); q.relax = sp_ienv(2); q.diag_pivot_thresh = u; q.usepr = NO;
	q.SymmetricMode = sym ? YES : NO; q.PrintStat = NO; q.perm_c = S.perm_c; q.perm_r = S.perm_r; q.work = 0; q.lwork = -1;
	q.etree = S.etree; q.colcnt_h = S.colcnt; q.part_super_h = S.part;
	PG(gssvx)(P, &q, &S.A, S.perm_c, S.perm_r, &qe, S.R, S.C, &S.L, &S.U, &QB, &QX, &qr, &qc, ferr, berr, &qm, &qinfo);
	lwork = ((long) ((double) qm.total_needed * autopct / 100.0) + 64 + 15) & ~15L;    /* a multiple of 16 bytes, as a caller would pass */
	memcpy(S.val, vsave, sizeof(SCALAR) * S.nnz); memcpy(S.perm_c, pcs, sizeof(int_t) * n); memcpy(S.perm_r, prs, sizeof(int_t) * n);
	Destroy_SuperMatrix_Store(&QB); Destroy_SuperMatrix_Store(&QX); SUPERLU_FREE(qb); SUPERLU_FREE(qx); free(vsave); SUPERLU_FREE(pcs); SUPERLU_FREE(prs);
    } else if (autopct) lwork = S.lwork > 0 ? S.lwork : 1;
    if (lwork > 0) { if (lwork > WORKMAX - 64) lwork = WORKMAX - 64; S.lwork = lwork; }
    if (lwork > 0 && fact != FACTORED && !refact) place_work(lwork, (int) kv_i(K, "woff", 0));
    S.opt.nprocs = P; S.opt.fact = fact; S.opt.trans = tr_of(trs); S.opt.refact = refact ? YES : NO;
    S.opt.panel_size = sp_ienv(1); S.opt.relax = sp_ienv(2); S.opt.diag_pivot_thresh = u; S.opt.usepr = usepr ? YES : NO;
    S.opt.drop_tol = 0; S.opt.SymmetricMode = sym ? YES : NO; S.opt.PrintStat = NO;
    S.opt.perm_c = S.perm_c; S.opt.perm_r = S.perm_r; S.opt.work = lwork > 0 ? S.work : 0; S.opt.lwork = lwork;
    S.opt.etree = S.etree; S.opt.colcnt_h = S.colcnt; S.opt.part_super_h = S.part;
    ckv = fnv(S.val, sizeof(SCALAR) * S.nnz); cki = fnv(S.ind, sizeof(int_t) * S.nnz); ckp = fnv(S.ptr, sizeof(int_t) * (n + 1));
    ckpr = cks_perm(S.perm_r, n); ckpc = cks_perm(S.perm_c, n);
    if (S.haveLU) { SCPformat *Ls = (SCPformat *) S.L.Store; ckL = fnv(Ls->nzval_colbeg, sizeof(int_t) * n) ^ fnv(Ls->rowind_colbeg, sizeof(int_t) * n) ^ (unsigned long) Ls->nnz; }
    live0 = vrt_mem_live_count(); thr0 = vrt_thread_count(); vrt_xerbla_reset();
    vrt_log_raw("\"e\":\"CallBegin\",\"call\":\"gssvx\",\"refact\":%d", (fact != FACTORED && refact) ? 1 : 0);
    vrt_mem_scope(1);
    PG(gssvx)(P, &S.opt, &S.A, S.perm_c, S.perm_r, &S.equed, S.R, S.C, &S.L, &S.U, &B, &X, &rpg, &rcond, ferr, berr, &mu, &info);
    vrt_mem_scope(0);
    thr1 = vrt_thread_count_until(thr0); live1 = vrt_mem_live_count();
    {
	int did_fact = (fact != FACTORED) && lwork != -1 && vrt_xerbla_count == 0;
	int rowact, colact, Aok = 1, Bok = 1, Xunch = 1, permunch, Lunch = -1, Aunch;
	long omega = -1, berrdev = -1, berrabs = -1, ferrok = -1, rc_lo = -1, rc_hi = -1, rpgdev = -1, condk = -1; int eqv = (int) S.equed; int refok = 0; long omegan = -1; long double skeel = -1, growth = 1, sigma = 1;
	REAL *rho, *gam;    /* scaling of the rows / columns of the user's matrix */
	if (did_fact && info >= 0 && info <= n + 1) { S.haveLU = 1; S.LUuser = lwork > 0; S.factver = S.ver; }
	rowact = (S.equed == ROW || S.equed == BOTH); colact = (S.equed == COL || S.equed == BOTH);
	if (S.stype == 0) { rho = rowact ? S.R : 0; gam = colact ? S.C : 0; } else { rho = colact ? S.C : 0; gam = rowact ? S.R : 0; }
	Aunch = ckv == fnv(S.val, sizeof(SCALAR) * S.nnz);
	permunch = ckpr == cks_perm(S.perm_r, n) && ckpc == cks_perm(S.perm_c, n);
	if (cki != fnv(S.ind, sizeof(int_t) * S.nnz) || ckp != fnv(S.ptr, sizeof(int_t) * (n + 1))) Aok = 0;
	/* A_out = diag(rho) A_in diag(gam) to a few ulps (exactly A_in when nothing was applied by this call) */
	{
	    int applied = (fact == EQUILIBRATE) && vrt_xerbla_count == 0;
	    for (j = 0; j < n && Aok; ++j) for (i = S.ptr[j]; i < S.ptr[j + 1]; ++i) {
		int r = S.stype == 0 ? S.ind[i] : j, cc = S.stype == 0 ? j : S.ind[i];
		lc e = to_lc(vin[i]); long double tol;
		if (applied) { if (rho) e *= (long double) rho[r]; if (gam) e *= (long double) gam[cc]; }
		tol = 4.0L * UNIT_ROUNDOFF * cabsl(e);
		if (!applied || (!rho && !gam)) { if (memcmp(&S.val[i], &vin[i], sizeof(SCALAR))) { Aok = 0; break; } }
		else if (cabsl(to_lc(S.val[i]) - e) > tol) { Aok = 0; break; }
	    }
	    /* B_out = B_in scaled by the factor matching op(A)'s rows, when a scaling is active for this call */
	    if (vrt_xerbla_count == 0 && lwork != -1) {
		REAL *sc = op == 0 ? rho : gam;
		if (fact == FACTORED) { rowact = (eq_in == ROW || eq_in == BOTH); colact = (eq_in == COL || eq_in == BOTH);
		    if (S.stype == 0) sc = op == 0 ? (rowact ? S.R : 0) : (colact ? S.C : 0); else sc = op == 0 ? (colact ? S.C : 0) : (rowact ? S.R : 0); }
		for (c = 0; c < nrhs && Bok; ++c) for (i = 0; i < n; ++i) {
		    long idx = i + (long) c * ldb; lc e = to_lc(bin[idx]);
		    if (!sc) { if (memcmp(&b[idx], &bin[idx], sizeof(SCALAR))) { Bok = 0; break; } }
		    else { e *= (long double) sc[i]; if (cabsl(to_lc(b[idx]) - e) > 4.0L * UNIT_ROUNDOFF * cabsl(e)) { Bok = 0; break; } }
		}
	    } else Bok = !memcmp(b, bin, sizeof(SCALAR) * ldb * (nrhs ? nrhs : 1));
	}
	for (i = 0; i < ldx * (nrhs ? nrhs : 1); ++i) { SCALAR e = mk_scalar(-555.0, 0); if (memcmp(&x[i], &e, sizeof(SCALAR))) { Xunch = 0; break; } }
	if (S.haveLU && ckL) { SCPformat *Ls = (SCPformat *) S.L.Store; Lunch = ckL == (fnv(Ls->nzval_colbeg, sizeof(int_t) * n) ^ fnv(Ls->rowind_colbeg, sizeof(int_t) * n) ^ (unsigned long) Ls->nnz); }
	if ((info == 0 || info == n + 1) && vrt_xerbla_count == 0 && lwork != -1 && nrhs > 0) {
	    /* X must solve the ORIGINAL system op(A) X = B0 of the CURRENT values */
	    lc *Xd = lc_zeros((long) n * nrhs); long double w, wt, nu = (long double) (n + 1) * UNIT_ROUNDOFF;
	    for (c = 0; c < nrhs; ++c) for (i = 0; i < n; ++i) Xd[i + (long) c * n] = to_lc(x[i + (long) c * ldx]);
	    w = omega_of(S.Ad, op, Xd, B0, n, nrhs); omega = permille(w / nu);
	    {   /* mixed normwise backward error ||r||_inf / (|| |op(A)||x| ||_inf + ||b||_inf) of the ORIGINAL system */
		long double wn = 0;
		for (c = 0; c < nrhs; ++c) { long double rn = 0, dn = 0, bn = 0, mx = 0, mn = HUGE_VALL;
		    for (i = 0; i < n; ++i) { lc acc = 0; long double d = 0;
			for (j = 0; j < n; ++j) { lc a = op_entry(S.Ad, n, op, i, j), xx = Xd[j + (long) c * n]; acc += a * xx; d += cabsl(a) * cabsl(xx); }
			if (cabsl(B0[i + (long) c * n] - acc) > rn) rn = cabsl(B0[i + (long) c * n] - acc);
			if (d > dn) dn = d; if (cabsl(B0[i + (long) c * n]) > bn) bn = cabsl(B0[i + (long) c * n]);
			(void) mx; (void) mn; }
		    if (dn + bn > 0 && rn / (dn + bn) > wn) wn = rn / (dn + bn); }
		omegan = permille(wn / nu);
	    }
	    {   /* equilibrated system as returned: Aeq (user orientation), Beq, Xeq */
		lc *Aeq = lc_zeros((long) n * n), *Beq = lc_zeros((long) n * nrhs), *Xeq = lc_zeros((long) n * nrhs), *Inv;
		REAL *xs = op == 0 ? gam : rho;   /* X = diag(xs) Xeq */
		for (j = 0; j < n; ++j) for (i = S.ptr[j]; i < S.ptr[j + 1]; ++i) {
		    if (S.stype == 0) Aeq[S.ind[i] + (long) j * n] += to_lc(S.val[i]); else Aeq[j + (long) S.ind[i] * n] += to_lc(S.val[i]); }
		for (c = 0; c < nrhs; ++c) for (i = 0; i < n; ++i) { Beq[i + (long) c * n] = to_lc(b[i + (long) c * ldb]);
		    Xeq[i + (long) c * n] = Xd[i + (long) c * n] / (xs ? (long double) xs[i] : 1.0L); }
		/* Skeel's sigma(M, y) = max_i (|M||y|)_i / min_i (|M||y|)_i of the equilibrated system that is refined */
		for (c = 0; c < nrhs; ++c) { long double mx = 0, mn = HUGE_VALL;
		    for (i = 0; i < n; ++i) { long double d = 0;
			for (j = 0; j < n; ++j) d += cabsl(op_entry(Aeq, n, op, i, j)) * cabsl(Xeq[j + (long) c * n]);
			if (d > mx) mx = d; if (d < mn) mn = d; }
		    if (mn > 0) { if (mx / mn > sigma) sigma = mx / mn; } else sigma = HUGE_VALL; }
		wt = 0;
		for (c = 0; c < nrhs; ++c) {
		    long double wc = omega_of(Aeq, op, Xeq + (long) c * n, Beq + (long) c * n, n, 1), d = fabsl((long double) berr[c] - wc) / nu;
		    if (d > wt) wt = d;
		    if (permille((long double) berr[c] / nu) > berrabs) berrabs = permille((long double) berr[c] / nu);
		}
		berrdev = permille(wt);
		Inv = ref_inverse(n, Aeq);
		if (Inv) {
		    long double an, ain, ae = 0, kap; lc *ev = lc_zeros(n); int nrm1 = (op == 0);   /* 1-norm when A X = B, inf-norm otherwise */
		    an = nrm1 ? norm1(n, Aeq) : norminf(n, Aeq); ain = nrm1 ? norm1(n, Inv) : norminf(n, Inv);
		    kap = an * ain; condk = kap < 1e15L ? (long) kap : 1000000000L;
		    if (getenv("VERIF_DEBUG")) fprintf(stderr, "cond dbg op=%d nrm1=%d an=%Lg ain=%Lg rcond=%g\n", op, nrm1, an, ain, (double) rcond);
		    {   /* Skeel condition number || |M^-1| |M| ||_inf of the system that is refined, M = op(Aeq): what the
			   contraction of componentwise iterative refinement depends on (invariant under row scaling of M) */
			int_t k2; skeel = 0;
			for (i = 0; i < n; ++i) { long double rs = 0;
			    for (j = 0; j < n; ++j) { long double t = 0;
				for (k2 = 0; k2 < n; ++k2) { lc mi = op == 0 ? Inv[i + (long) k2 * n] : Inv[k2 + (long) i * n], m = op == 0 ? Aeq[k2 + (long) j * n] : Aeq[j + (long) k2 * n]; t += cabsl(mi) * cabsl(m); }
				rs += t; }
			    if (rs > skeel) skeel = rs; }
		    }
		    /* || inv(A) e/n ||  (1-norm) resp. || inv(A)' e/n || */
		    for (i = 0; i < n; ++i) { lc acc = 0; for (j = 0; j < n; ++j) acc += (nrm1 ? Inv[i + (long) j * n] : Inv[j + (long) i * n]) / (long double) n; ae += cabsl(acc); }
		    if (rcond > 0) { rc_lo = permille((1.0L / kap) / (long double) rcond); rc_hi = permille((long double) rcond * an * ae); }
		    else { rc_lo = (1.0L / kap) <= 2 * UNIT_ROUNDOFF ? 0 : RATIO_CAP; rc_hi = 0; }
		    /* forward error against the solution the right-hand side was built from (as the LAPACK testers do) */
		    {
			long double worst = 0;
			for (c = 0; c < nrhs; ++c) {
			    long double en = 0, xn = 0;
			    for (i = 0; i < n; ++i) { long double d = cabsl(Xtrue[i + (long) c * n] - Xd[i + (long) c * n]); if (d > en) en = d; if (cabsl(Xd[i + (long) c * n]) > xn) xn = cabsl(Xd[i + (long) c * n]); }
			    if (getenv("VERIF_DEBUG")) fprintf(stderr, "ferr dbg c=%d en=%Lg xn=%Lg ferr=%g berr=%g\n", c, en, xn, (double) ferr[c], (double) berr[c]);
			    if (xn > 0 && en > 0) { long double r = (en / xn) / (20.0L * (long double) ferr[c] + 1e-300L); if (r > worst) worst = r; }
			}
			ferrok = permille(worst);
		    }
		    free(ev); free(Inv);
		}
		/* reciprocal pivot growth recomputed from the returned factors */
		{
		    lc *Ld = lc_zeros((long) n * n), *Ud = lc_zeros((long) n * n), *Af = S.stype == 0 ? Aeq : dense_op(n, Aeq, 1);
		    if (!extract_LU(&S.L, &S.U, n, Ld, Ud) && is_perm(S.perm_c, n)) {
			long double best = HUGE_VALL; int_t *ipc = (int_t *) malloc(sizeof(int_t) * (n + 1));
			for (j = 0; j < n; ++j) ipc[S.perm_c[j]] = j;
			for (j = 0; j < n; ++j) { long double am = 0, um = 0;
			    /* the complex codes measure magnitudes as |re| + |im| here (z_abs1) */
			    for (i = 0; i < n; ++i) { lc av = Af[i + (long) ipc[j] * n], uv = Ud[i + (long) j * n];
				long double a = IS_COMPLEX ? fabsl(creall(av)) + fabsl(cimagl(av)) : cabsl(av), uu = IS_COMPLEX ? fabsl(creall(uv)) + fabsl(cimagl(uv)) : cabsl(uv);
				if (a > am) am = a; if (uu > um) um = uu; }
			    if (um > 0 && am / um < best) best = am / um; }
			if (getenv("VERIF_DEBUG")) fprintf(stderr, "rpg dbg lib=%.17g oracle=%.17Lg\n", (double) rpg, best);
			if (best < HUGE_VALL && best > 0) rpgdev = permille(fabsl((long double) rpg - best) / (best * 64.0L * UNIT_ROUNDOFF));
			if (best < HUGE_VALL && best > 0 && best < 1) growth = 1.0L / best;
			free(ipc);
		    }
		    if (getenv("VERIF_DEBUG") && !extract_LU(&S.L, &S.U, n, Ld, Ud)) {   /* do the solves ?gscon relies on agree with the dense factors? */
			SCALAR *w = scalarMalloc(n); lc *y = lc_zeros(n); int_t inf2 = 0; long double d1 = 0, d2 = 0; int k2;
			for (k2 = 0; k2 < 2; ++k2) {
			    for (i = 0; i < n; ++i) { w[i] = mk_scalar(1.0 / n * (k2 ? (i % 2 ? -1 : 1) * (1.0 + i / (double) (n - 1)) : 1.0), 0); y[i] = to_lc(w[i]); }
			    if (k2 == 0) { SPG(trsv)("L", "N", "U", &S.L, &S.U, w, &inf2);
				for (j = 0; j < n; ++j) { for (i = j + 1; i < n; ++i) y[i] -= Ld[i + (long) j * n] * y[j]; } }          /* unit lower only */
			    else { SPG(trsv)("U", "N", "N", &S.L, &S.U, w, &inf2);
				for (j = n - 1; j >= 0; --j) { y[j] /= Ud[j + (long) j * n]; for (i = 0; i < j; ++i) y[i] -= Ud[i + (long) j * n] * y[j]; } }
			    for (i = 0; i < n; ++i) { long double d = cabsl(to_lc(w[i]) - y[i]); if (d > (k2 ? d2 : d1)) { if (k2) d2 = d; else d1 = d; } }
			}
			fprintf(stderr, "trsv dbg max |sp_trsv - dense|: L-solve %Lg  U-solve %Lg\n", d1, d2);
			SUPERLU_FREE(w); free(y);
		    }
		    free(Ld); free(Ud); if (Af != Aeq) free(Af);
		}
		/* the premise under which the property promises the refined accuracy, cond * growth * n * eps <= 1e-3, with the
		   condition number under which fixed-precision refinement provably contracts (Skeel 1980): cond(M) * sigma(M, x) */
		refok = skeel >= 0 && sigma < HUGE_VALL && skeel * sigma * growth * (long double) n * UNIT_ROUNDOFF <= 1e-3L;
		free(Aeq); free(Beq); free(Xeq);
	    }
	    free(Xd);
	}
	vrt_log_raw("\"e\":\"Call\",\"call\":\"gssvx\",\"P\":%d,\"n\":%d,\"stype\":%d,\"fact\":\"%s\",\"refact\":%d,\"usepr\":%d,\"trans\":\"%c\",\"lwmode\":%d,\"nrhs\":%d,\"sym\":%d,"
		    "\"ver\":%d,\"factver\":%d,\"info\":%ld,\"xerbla\":%d,\"xinfo\":%d,\"equed\":%d,\"Aok\":%d,\"Aunch\":%d,\"Bok\":%d,\"Xunch\":%d,\"permunch\":%d,\"Lunch\":%d,"
		    "\"permc\":%d,\"permr\":%d,\"omega\":%ld,\"berrdev\":%ld,\"berrabs\":%ld,\"ferrok\":%ld,\"rclo\":%ld,\"rchi\":%ld,\"rpgdev\":%ld,\"cond\":%ld,"
		    "\"refok\":%d,\"omegan\":%ld,\"rcondsmall\":%d,\"needed\":%ld,\"inside\":%d,\"thr0\":%d,\"thr1\":%d,\"live0\":%ld,\"live1\":%ld,\"u1000\":%d,\"prpc\":%d,\"outh\":\"%lx\",\"reqs\":%ld,\"guard\":%d",
		    P, n, S.stype, facts, refact, usepr, trs[0], lwork > 0 ? 1 : (int) lwork, nrhs, sym, S.ver, S.factver, (long) info, vrt_xerbla_count, vrt_xerbla_info, eqv,
		    Aok, Aunch, Bok, Xunch, permunch, Lunch, is_perm(S.perm_c, n), S.haveLU ? is_perm(S.perm_r, n) : -1,
		    omega, berrdev, berrabs, ferrok, rc_lo, rc_hi, rpgdev, condk, refok, omegan,
		    (rcond >= 0 && rcond < mach_eps()) ? 1 : 0, (long) (mu.total_needed > 2000000000.0f ? 2000000000L : (long) mu.total_needed),
		    (S.haveLU && S.LUuser) ? ((char *) ((SCPformat *) S.L.Store)->nzval >= (char *) S.work && (char *) ((SCPformat *) S.L.Store)->nzval < (char *) S.work + S.lwork) : -1,
		    thr0, thr1, live0, live1, (int) (u * 1000), (S.haveLU && !memcmp(S.perm_r, S.perm_c, sizeof(int_t) * n)) ? 1 : 0,
		    out_hash(x, ldx, nrhs, info, (double) rcond, (double) rpg, ferr, berr), vrt_mem_requests(), guards_ok(lwork));
    }
    Destroy_SuperMatrix_Store(&B); Destroy_SuperMatrix_Store(&X); SUPERLU_FREE(b); SUPERLU_FREE(x); free(bin); free(vin); free(Xtrue); free(B0); free(ferr); free(berr);
}


/* ------------------------------------------------------------------ the computational routines (sessions) */
static unsigned long cks_A(void) { return fnv(S.val, sizeof(SCALAR) * S.nnz) ^ (fnv(S.ind, sizeof(int_t) * S.nnz) * 31) ^ (fnv(S.ptr, sizeof(int_t) * (S.n + 1)) * 131); }
static unsigned long cks_LU(void)
{
    SCPformat *Ls; NCPformat *Us; unsigned long h = 7; int n = S.n, j;
    if (!S.haveLU) return 0;
    Ls = (SCPformat *) S.L.Store; Us = (NCPformat *) S.U.Store;
    for (j = 0; j < n; ++j) {
	h = h * 31 + fnv((SCALAR *) Ls->nzval + Ls->nzval_colbeg[j], sizeof(SCALAR) * (Ls->nzval_colend[j] - Ls->nzval_colbeg[j]));
	h = h * 31 + fnv((SCALAR *) Us->nzval + Us->colbeg[j], sizeof(SCALAR) * (Us->colend[j] - Us->colbeg[j]));
	h = h * 31 + fnv(Us->rowind + Us->colbeg[j], sizeof(int_t) * (Us->colend[j] - Us->colbeg[j]));
    }
    for (j = 0; j <= Ls->nsuper; ++j) { int f = Ls->sup_to_colbeg[j]; h = h * 31 + fnv(Ls->rowind + Ls->rowind_colbeg[f], sizeof(int_t) * (Ls->rowind_colend[f] - Ls->rowind_colbeg[f])); }
    return h;
}
/* p?gstrf_init: options + AC = A*Pc (a view) + postordered etree (first time) */
static void cmd_sinit(kv_t *K)
{
    int P = (int) kv_i(K, "P", 1), refact = (int) kv_i(K, "refact", 0), usepr = (int) kv_i(K, "usepr", 0), n = S.n, j, k;
    long lwork = kv_i(K, "lwork", 0); double u = kv_d(K, "u", 1.0);
    Gstat_t Gstat; int_t *pc_in = intMalloc(n), *pr_in = intMalloc(n); unsigned long ckA; long live0, live1;
    int acok = 1, etpost = 1, postonly = 1, permunch;
    if (lwork > WORKMAX - 64) lwork = WORKMAX - 64;
    if (lwork > 0 && !refact) place_work(lwork, (int) kv_i(K, "woff", 0));
    restore_values();
    memcpy(pc_in, S.perm_c, sizeof(int_t) * n); memcpy(pr_in, S.perm_r, sizeof(int_t) * n);
    StatAlloc(n, P, sp_ienv(1), sp_ienv(2), &Gstat); StatInit(n, P, &Gstat);
    ckA = cks_A(); vrt_xerbla_reset();
    live0 = vrt_mem_live_count();
    vrt_log_raw("\"e\":\"CallBegin\",\"call\":\"sinit\"");
    vrt_mem_scope(1);
    PG(gstrf_init)(P, DOFACT, NOTRANS, refact ? YES : NO, sp_ienv(1), sp_ienv(2), (REAL) u, usepr ? YES : NO, 0.0, S.perm_c, S.perm_r,
		   lwork > 0 ? S.work : 0, lwork, &S.A, &S.AC, &S.sopt, &Gstat);
    vrt_mem_scope(0);
    live1 = vrt_mem_live_count();
    S.ses_sym = 1; S.ses_ac = 1; S.ses_armed = 1; S.ses_refact = refact; S.ses_usepr = usepr; S.ses_P = P; S.ses_lwork = lwork;
    if (lwork > 0) S.lwork = lwork;
    {   /* AC is the view A*Pc: column perm_c[j] of AC is column j of A, sharing A's arrays */
	NCPformat *ac = (NCPformat *) S.AC.Store; NCformat *a = (NCformat *) S.A.Store;
	if (S.AC.Stype != SLU_NCP || S.AC.nrow != n || S.AC.ncol != n || ac->nzval != a->nzval || ac->rowind != a->rowind || ac->nnz != a->nnz) acok = 0;
	for (j = 0; j < n && acok; ++j) if (ac->colbeg[S.perm_c[j]] != a->colptr[j] || ac->colend[S.perm_c[j]] != a->colptr[j + 1]) acok = 0;
    }
    permunch = !memcmp(pc_in, S.perm_c, sizeof(int_t) * n);
    if (is_perm(S.perm_c, n)) {
	/* the caller's ordering changed only by a postorder: post = perm_c_out o inverse(perm_c_in) maps every subtree of the etree of
	   A*Pc_in onto a contiguous range; what is checked here: the returned etree is postordered (parent > child) and is the column
	   etree of A*Pc_out up to the relabelling (checked by C10 on the records of sp_colorder); first-time only */
	for (j = 0; j < n; ++j) if (!(S.sopt.etree[j] > j && S.sopt.etree[j] <= n)) etpost = 0;
	if (refact && !permunch) postonly = 0;
	if (!refact) {   /* descendants of every vertex are contiguous: first descendant = j - size + 1 */
	    int_t *sz = intMalloc(n + 1); for (j = 0; j <= n; ++j) sz[j] = 1;
	    for (j = 0; j < n && etpost; ++j) { k = S.sopt.etree[j]; if (k < n) sz[k] += sz[j]; }
	    for (j = 0; j < n && etpost; ++j) { k = S.sopt.etree[j]; if (k < n && !(j >= k - sz[k] + 1)) postonly = 0; }
	    SUPERLU_FREE(sz);
	}
    } else postonly = 0;
    vrt_log_raw("\"e\":\"Call\",\"call\":\"sinit\",\"P\":%d,\"n\":%d,\"refact\":%d,\"usepr\":%d,\"lwmode\":%d,\"ver\":%d,\"xerbla\":%d,\"Aunch\":%d,\"permc\":%d,"
		"\"permcunch\":%d,\"permrunch\":%d,\"acok\":%d,\"etpost\":%d,\"postonly\":%d,\"dlive\":%ld,\"optsok\":%d",
		P, n, refact, usepr, lwork > 0 ? 1 : 0, S.ver, vrt_xerbla_count, ckA == cks_A(), is_perm(S.perm_c, n), permunch,
		!memcmp(pr_in, S.perm_r, sizeof(int_t) * n), acok, etpost, postonly, live1 - live0,
		S.sopt.nprocs == P && S.sopt.refact == (refact ? YES : NO) && S.sopt.usepr == (usepr ? YES : NO) && S.sopt.perm_c == S.perm_c && S.sopt.perm_r == S.perm_r
		&& S.sopt.lwork == lwork && S.sopt.panel_size == sp_ienv(1) && S.sopt.relax == sp_ienv(2));
    StatFree(&Gstat); SUPERLU_FREE(pc_in); SUPERLU_FREE(pr_in);
}
/* p?gstrf on the options and the AC of the session */
static void cmd_sfactor(kv_t *K)
{
    int n = S.n, P = S.ses_P; int_t info = -99; Gstat_t Gstat; unsigned long ckA, ckpc; long live0, live1; int thr0, thr1;
    int_t *pr_in = intMalloc(n); long recon = -1, maxl = -1; int extract = -1, inside = -1;
    (void) K;
    memcpy(pr_in, S.perm_r, sizeof(int_t) * n);
    StatAlloc(n, P, sp_ienv(1), sp_ienv(2), &Gstat); StatInit(n, P, &Gstat);
    ckA = cks_A(); ckpc = cks_perm(S.perm_c, n); vrt_xerbla_reset();
    live0 = vrt_mem_live_count(); thr0 = vrt_thread_count();
    vrt_log_raw("\"e\":\"CallBegin\",\"call\":\"sfactor\",\"refact\":%d", S.ses_refact ? 1 : 0);
    vrt_mem_scope(1);
    PG(gstrf)(&S.sopt, &S.AC, S.perm_r, &S.L, &S.U, &Gstat, &info);
    vrt_mem_scope(0);
    thr1 = vrt_thread_count_until(thr0); live1 = vrt_mem_live_count();
    if (info >= 0 && info <= n) { S.haveLU = 1; S.LUuser = S.ses_lwork > 0; S.factver = S.ver; S.equed = NOEQUIL; }
    S.ses_armed = 0;
    if (info == 0) {
	lc *Ld = lc_zeros((long) n * n), *Ud = lc_zeros((long) n * n);
	extract = extract_LU(&S.L, &S.U, n, Ld, Ud);
	if (!extract && is_perm(S.perm_r, n) && is_perm(S.perm_c, n)) {
	    long double ml = 0, rr = recon_ratio(n, S.Ad, S.perm_r, S.perm_c, Ld, Ud, BOUND_U, &ml);
	    recon = permille(rr); maxl = permille(ml / (IS_COMPLEX ? 1.41421356237309504880L * (1.0L + 1e-12L) : 1.0L));
	}
	free(Ld); free(Ud);
    }
    if (S.haveLU && S.LUuser) inside = ((char *) ((SCPformat *) S.L.Store)->nzval >= (char *) S.work && (char *) ((SCPformat *) S.L.Store)->nzval < (char *) S.work + S.lwork);
    vrt_log_raw("\"e\":\"Call\",\"call\":\"sfactor\",\"P\":%d,\"n\":%d,\"refact\":%d,\"usepr\":%d,\"lwmode\":%d,\"ver\":%d,\"info\":%ld,\"xerbla\":%d,\"Aunch\":%d,"
		"\"permcunch\":%d,\"permrunch\":%d,\"permr\":%d,\"extract\":%d,\"recon\":%ld,\"maxl\":%ld,\"inside\":%d,\"guard\":%d,\"thr0\":%d,\"thr1\":%d,\"live0\":%ld,\"live1\":%ld,"
		"\"useprkept\":%d,\"u1000\":%d",
		P, n, S.ses_refact, S.ses_usepr, S.ses_lwork > 0 ? 1 : 0, S.ver, (long) info, vrt_xerbla_count, ckA == cks_A(), ckpc == cks_perm(S.perm_c, n),
		!memcmp(pr_in, S.perm_r, sizeof(int_t) * n), (info >= 0 && info <= n) ? is_perm(S.perm_r, n) : -1, extract, recon, maxl, inside, guards_ok(S.ses_lwork),
		thr0, thr1, live0, live1, S.sopt.usepr == YES, (int) (S.sopt.diag_pivot_thresh * 1000));
    StatFree(&Gstat); SUPERLU_FREE(pr_in);
}
/* ?gstrs with the factors at hand: op(A) X = B, B overwritten */
static void cmd_ssolve(kv_t *K)
{
    int n = S.n, nrhs = (int) kv_i(K, "nrhs", 1), ldb = n + (int) kv_i(K, "pad", 0), i, c; const char *trs = kv_s(K, "trans", "N");
    int op = trs[0] == 'T' ? 1 : trs[0] == 'C' ? 2 : 0; SCALAR *b; lc *Xtrue, *B0; SuperMatrix B; int_t info = -99; Gstat_t Gstat;
    unsigned long ckA, ckLU, ckpr, ckpc; long live0, live1, resid = -1; int thr0, thr1;
    make_rhs(nrhs, ldb, op, (unsigned long) kv_i(K, "seed", 1), &b, &Xtrue, &B0);
    G(Create_Dense_Matrix)(&B, n, nrhs, b, ldb, SLU_DN, SLU_DT, SLU_GE);
    StatAlloc(n, 1, sp_ienv(1), sp_ienv(2), &Gstat); StatInit(n, 1, &Gstat);
    ckA = cks_A(); ckLU = cks_LU(); ckpr = cks_perm(S.perm_r, n); ckpc = cks_perm(S.perm_c, n); vrt_xerbla_reset();
    live0 = vrt_mem_live_count(); thr0 = vrt_thread_count();
    vrt_log_raw("\"e\":\"CallBegin\",\"call\":\"ssolve\"");
    vrt_mem_scope(1);
    G(gstrs)(tr_of(trs), &S.L, &S.U, S.perm_r, S.perm_c, &B, &Gstat, &info);
    vrt_mem_scope(0);
    thr1 = vrt_thread_count_until(thr0); live1 = vrt_mem_live_count();
    if (info == 0 && nrhs > 0) {
	lc *Ld = lc_zeros((long) n * n), *Ud = lc_zeros((long) n * n);
	if (!extract_LU(&S.L, &S.U, n, Ld, Ud) && is_perm(S.perm_r, n) && is_perm(S.perm_c, n)) {
	    lc *W = bound_matrix(n, S.perm_r, S.perm_c, Ld, Ud), *Xd = lc_zeros((long) n * nrhs);
	    for (c = 0; c < nrhs; ++c) for (i = 0; i < n; ++i) Xd[i + (long) c * n] = to_lc(b[i + (long) c * ldb]);
	    resid = permille(resid_ratio(n, nrhs, S.Ad, op, W, Xd, B0, 3 * n, BOUND_U));
	    free(W); free(Xd);
	}
	free(Ld); free(Ud);
    }
    vrt_log_raw("\"e\":\"Call\",\"call\":\"ssolve\",\"n\":%d,\"trans\":\"%c\",\"nrhs\":%d,\"pad\":%d,\"ver\":%d,\"factver\":%d,\"info\":%ld,\"xerbla\":%d,\"Aunch\":%d,\"Lunch\":%d,"
		"\"permunch\":%d,\"padok\":%d,\"resid\":%ld,\"thr0\":%d,\"thr1\":%d,\"live0\":%ld,\"live1\":%ld",
		n, trs[0], nrhs, ldb - n, S.ver, S.factver, (long) info, vrt_xerbla_count, ckA == cks_A(), ckLU == cks_LU(),
		ckpr == cks_perm(S.perm_r, n) && ckpc == cks_perm(S.perm_c, n), padding_ok(b, nrhs, ldb), resid, thr0, thr1, live0, live1);
    StatFree(&Gstat); Destroy_SuperMatrix_Store(&B); SUPERLU_FREE(b); free(Xtrue); free(B0);
}
/* ?gscon on the factors at hand: 1/(||A|| ||inv(A)||) <= rcond <= 1/(||A|| ||inv(A) e/n||) in the requested norm */
static void cmd_scon(kv_t *K)
{
    int n = S.n, i, j, nrm1 = kv_s(K, "norm", "1")[0] != 'I'; REAL rcond = -1, anorm; int_t info = -99; long rc_lo = -1, rc_hi = -1, live0, live1; unsigned long ckLU;
    lc *Inv = ref_inverse(n, S.Ad); long double an = nrm1 ? norm1(n, S.Ad) : norminf(n, S.Ad);
    anorm = (REAL) an; ckLU = cks_LU(); vrt_xerbla_reset();
    live0 = vrt_mem_live_count();
    vrt_log_raw("\"e\":\"CallBegin\",\"call\":\"scon\"");
    vrt_mem_scope(1);
    G(gscon)(nrm1 ? "1" : "I", &S.L, &S.U, anorm, &rcond, &info);
    vrt_mem_scope(0);
    live1 = vrt_mem_live_count();
    if (Inv && info == 0) {
	long double ain = nrm1 ? norm1(n, Inv) : norminf(n, Inv), ae = 0, kap = an * ain;
	for (i = 0; i < n; ++i) { lc acc = 0; for (j = 0; j < n; ++j) acc += (nrm1 ? Inv[i + (long) j * n] : Inv[j + (long) i * n]) / (long double) n; ae += cabsl(acc); }
	if (rcond > 0) { rc_lo = permille((1.0L / kap) / (long double) rcond); rc_hi = permille((long double) rcond * an * ae); }
	else { rc_lo = (1.0L / kap) <= 2 * UNIT_ROUNDOFF ? 0 : RATIO_CAP; rc_hi = 0; }
	if (kap > 1e7L / (IS_COMPLEX || sizeof(REAL) == 4 ? 1e3L : 1.0L)) { rc_lo = rc_hi = -2; }   /* outside the claim: the factors themselves carry the error */
    }
    vrt_log_raw("\"e\":\"Call\",\"call\":\"scon\",\"n\":%d,\"norm\":\"%c\",\"ver\":%d,\"info\":%ld,\"xerbla\":%d,\"Lunch\":%d,\"rclo\":%ld,\"rchi\":%ld,\"live0\":%ld,\"live1\":%ld",
		n, nrm1 ? '1' : 'I', S.ver, (long) info, vrt_xerbla_count, ckLU == cks_LU(), rc_lo, rc_hi, live0, live1);
    free(Inv);
}
/* Destroy_CompCol_Permuted(&AC) between two factorizations of a session, as EXAMPLE/pdrepeat.c does */
static void cmd_sdropac(kv_t *K)
{
    long live0 = vrt_mem_live_count(); (void) K;
    if (S.ses_ac) { Destroy_CompCol_Permuted(&S.AC); S.ses_ac = 0; }
    S.ses_armed = 0;
    vrt_log_raw("\"e\":\"Call\",\"call\":\"sdropac\",\"dlive\":%ld", vrt_mem_live_count() - live0);
}
/* pxgstrf_finalize (or, when the AC is already gone, the caller frees the three arrays) */
static void cmd_sfinal(kv_t *K)
{
    long live0 = vrt_mem_live_count(); int viafin = S.ses_ac; (void) K;
    if (S.ses_ac) pxgstrf_finalize(&S.sopt, &S.AC);
    else if (S.ses_sym) { SUPERLU_FREE(S.sopt.etree); SUPERLU_FREE(S.sopt.colcnt_h); SUPERLU_FREE(S.sopt.part_super_h); }
    S.ses_ac = S.ses_sym = S.ses_armed = 0;
    vrt_log_raw("\"e\":\"Call\",\"call\":\"sfinal\",\"viafin\":%d,\"dlive\":%ld", viafin, vrt_mem_live_count() - live0);
}

static void cmd_destroy(kv_t *K)
{
    long live0 = vrt_mem_live_count();
    destroy_LU();
    {   /* sites of the library allocations that are still live (for leak reports) */
	static vrt_block_t blk[4096]; long nb = vrt_mem_live(blk, 4096), i, m = 0; char sites[2048]; sites[0] = 0;
	for (i = 0; i < nb && m < 12; ++i) if (blk[i].file && strstr(blk[i].file, "/SRC/")) {
	    const char *b = strrchr(blk[i].file, '/'); char one[96];
	    snprintf(one, sizeof one, "%s\"%s:%d\"", m ? "," : "", b ? b + 1 : blk[i].file, blk[i].line);
	    if (strlen(sites) + strlen(one) < sizeof sites - 2) { strcat(sites, one); ++m; }
	}
	vrt_log_raw("\"e\":\"Call\",\"call\":\"destroy\",\"live0\":%ld,\"live1\":%ld,\"libsites\":[%s]", live0, vrt_mem_live_count(), sites);
    }
    (void) K;
}

static int run_script(const char *path, const char *out)
{
    FILE *sf = fopen(path, "r"), *of; char *line = 0; size_t cap = 0; kv_t K;
    if (!sf) { perror(path); return 3; }
    S.workbase = (char *) malloc(WORKMAX + 2 * GUARD);      /* the caller's workspace between two guard zones, allocated before tracking starts */
    memset(S.workbase, 0x5a, WORKMAX + 2 * GUARD); S.work = S.workbase + GUARD;
    vrt_log_enable(1);
    while (getline(&line, &cap, sf) > 0) {
	if (line[0] == '#' || line[0] == '\n') continue;
	kv_parse(line, &K); if (!K.n) continue;
	if (!strcmp(K.k[0], "ienv")) { int i; for (i = 1; i <= 8; ++i) { char key[8]; sprintf(key, "p%d", i); vrt_ienv[i] = kv_i(&K, key, vrt_ienv[i]); } }
	else if (!strcmp(K.k[0], "mat")) cmd_mat(&K);
	else if (!strcmp(K.k[0], "vals")) cmd_vals(&K);
	else if (!strcmp(K.k[0], "permc")) cmd_permc(&K);
	else if (!strcmp(K.k[0], "gssv")) cmd_gssv(&K);
	else if (!strcmp(K.k[0], "gssvx")) cmd_gssvx(&K);
	else if (!strcmp(K.k[0], "destroy")) cmd_destroy(&K);
	else if (!strcmp(K.k[0], "sinit")) cmd_sinit(&K);
	else if (!strcmp(K.k[0], "sfactor")) cmd_sfactor(&K);
	else if (!strcmp(K.k[0], "ssolve")) cmd_ssolve(&K);
	else if (!strcmp(K.k[0], "scon")) cmd_scon(&K);
	else if (!strcmp(K.k[0], "sdropac")) cmd_sdropac(&K);
	else if (!strcmp(K.k[0], "sfinal")) cmd_sfinal(&K);
	else if (!strcmp(K.k[0], "perturb")) vrt_perturb((int) kv_i(&K, "pct", 0), (unsigned) kv_i(&K, "seed", 1));
	else if (!strcmp(K.k[0], "track")) { vrt_mem_track((int) kv_i(&K, "on", 1)); }
	else if (!strcmp(K.k[0], "fail")) vrt_mem_arm(kv_i(&K, "k", 0));
	else if (!strcmp(K.k[0], "log")) vrt_log_enable((int) kv_i(&K, "on", 1));
	else { fprintf(stderr, "unknown command %s\n", K.k[0]); return 3; }
	/* flush what we have so far: a later crash must not lose the history */
	of = fopen(out, "w"); if (of) { vrt_log_dump(of); fclose(of); }
    }
    of = fopen(out, "w"); if (!of) { perror(out); return 3; }
    vrt_log_dump(of);
    fprintf(of, "{\"e\":\"End\",\"overflow\":%d,\"reqs\":%ld}\n", vrt_log_overflowed(), vrt_mem_requests());
    fclose(of);
    return 0;
}

int main(int argc, char **argv)
{
    pid_t pid; int st = 0, timeout = argc > 3 ? atoi(argv[3]) : 120; time_t t0;
    if (argc < 3) { fprintf(stderr, "usage: drv_api script out.ndjson [timeout]\n"); return 2; }
    pid = fork();
    if (pid == 0) {
	int fd = open("/dev/null", 1); if (fd >= 0) dup2(fd, 1);
	_exit(run_script(argv[1], argv[2]));
    }
    t0 = time(0);
    for (;;) {
	pid_t r = waitpid(pid, &st, WNOHANG);
	if (r == pid) break;
	if (time(0) - t0 > timeout) { kill(pid, SIGKILL); waitpid(pid, &st, 0); printf("STATUS timeout\n"); return 0; }
	usleep(2000);
    }
    if (WIFSIGNALED(st)) printf("STATUS signal:%d\n", WTERMSIG(st));
    else printf("STATUS exit:%d\n", WEXITSTATUS(st));
    return 0;
}
