/* drv_sched: replay of TLC-generated behaviours of SluSched.tla into the real scheduling layer
 * (pxgstrf_relax_snode, ParallelInit, pxgstrf_scheduler, pxgstrf_mark_busy_descends), single-threaded,
 * in exactly the order of the behaviour; the outputs of every call and the complete scheduler state
 * after the last step of every test are compared with the model (DESIGN.md 4.4).
 *
 * input (text, written by lib/sched.py from TLC's output; columns 0-based, EMPTY = -1):
 *   cfg n ps relax P npan maxsuper
 *   etree e[0..n-1]
 *   pst  lead size type  (npan times)
 *   rlx  k q[0..k-1]                       initial task queue
 *   test id nsteps
 *   s code p k v[0..k-1]                   nsteps times
 *   fin  pstate[npan] ukids[npan] ukroot fb[npan] spin[n]
 *   w    jcol bcol lbusy[n]                P times
 * output: one JSON line per failed test, then {"tests":..,"steps":..,"failed":..}
 */
#include "slu_mt_ddefs.h"
#include "verif_rt.h"
#include <string.h>

extern int ParallelInit(int_t, pxgstrf_relax_t *, superlumt_options_t *, pxgstrf_shared_t *);
extern int_t ParallelFinalize(pxgstrf_shared_t *);

#define MAXN 64
#define MAXP 8
#define MAXS 512
static int n, ps, relax, P, npan, maxsuper;
static int_t etree[MAXN + 1];
static int lead[MAXN], psz[MAXN], pty[MAXN], nq, q0[MAXN];
typedef struct { int code, p, k, v[2 * MAXN + 8]; } step_t;
static step_t steps[MAXS];
static FILE *of;
static long ntests, nsteps_total, nfailed;

static int fail(long id, int step, const char *what, long exp, long got)
{
    fprintf(of, "{\"test\":%ld,\"step\":%d,\"what\":\"%s\",\"expected\":%ld,\"got\":%ld}\n", id, step, what, exp, got);
    return 1;
}

static int run_test(long id, int ns, const int *fin, int (*wv)[MAXN + 2])
{
    Gstat_t Gstat; superlumt_options_t o; pxgstrf_shared_t sh; GlobalLU_t Glu; pxgstrf_relax_t *rl;
    int_t cur[MAXP], bc[MAXP], markj[MAXP], *lbusy[MAXP]; int i, k, p, bad = 0;
    memset(&o, 0, sizeof o); memset(&sh, 0, sizeof sh); memset(&Glu, 0, sizeof Glu);
    StatAlloc(n, P, ps, relax, &Gstat); StatInit(n, P, &Gstat);
    o.nprocs = P; o.etree = etree; o.panel_size = ps; o.relax = relax;
    sh.Gstat = &Gstat; sh.Glu = &Glu; sh.info = 0;
    Glu.map_in_sup = intMalloc(n + 1); Glu.supno = intMalloc(n + 1); Glu.xsup = intMalloc(n + 1); Glu.xsup_end = intMalloc(n + 1);
    for (i = 0; i <= n; ++i) { Glu.supno[i] = EMPTY; Glu.xsup[i] = EMPTY; Glu.xsup_end[i] = EMPTY; }
    rl = (pxgstrf_relax_t *) SUPERLU_MALLOC((n + 2) * sizeof(pxgstrf_relax_t));
    pxgstrf_relax_snode(n, &o, rl);
    ParallelInit(n, rl, &o, &sh);
    for (p = 0; p < P; ++p) { cur[p] = EMPTY; bc[p] = EMPTY; markj[p] = -2; lbusy[p] = intMalloc(n + 1); for (i = 0; i <= n; ++i) lbusy[p][i] = EMPTY; }
    /* the static partition: relaxed supernodes, panels, initial queue and task count */
    if (rl[0].size != nq) bad = fail(id, 0, "number of relaxed supernodes", nq, rl[0].size);
    for (i = 0; !bad && i < nq; ++i) if (sh.taskq.queue[sh.taskq.head + i] != q0[i]) bad = fail(id, 0, "initial queue entry", q0[i], sh.taskq.queue[sh.taskq.head + i]);
    if (!bad && sh.taskq.count != nq) bad = fail(id, 0, "initial queue count", nq, sh.taskq.count);
    if (!bad && sh.tasks_remain != npan) bad = fail(id, 0, "initial tasks_remain", npan, sh.tasks_remain);
    for (i = 0; !bad && i < npan; ++i) {
	if (sh.pan_status[lead[i]].size != psz[i]) bad = fail(id, 0, "panel size", psz[i], sh.pan_status[lead[i]].size);
	else if ((int) sh.pan_status[lead[i]].type != pty[i]) bad = fail(id, 0, "panel type", pty[i], sh.pan_status[lead[i]].type);
	for (k = 1; !bad && k < psz[i]; ++k) if (sh.pan_status[lead[i] + k].size != -k) bad = fail(id, 0, "panel offset", -k, sh.pan_status[lead[i] + k].size);
    }
    for (i = 0; !bad && i < ns; ++i) {
	step_t *s = &steps[i]; p = s->p;
	++nsteps_total;
	switch (s->code) {
	case 1: case 5:
	    if (sh.tasks_remain != s->v[0]) bad = fail(id, i + 1, "tasks_remain at the loop test", s->v[0], sh.tasks_remain);
	    break;
	case 2: {
	    int_t b = EMPTY;
	    if (cur[p] != s->v[0]) { bad = fail(id, i + 1, "current panel before the call", s->v[0], cur[p]); break; }
	    pxgstrf_scheduler(p, n, etree, &cur[p], &b, &sh);
	    if (cur[p] != s->v[1]) bad = fail(id, i + 1, "panel returned by the scheduler", s->v[1], cur[p]);
	    else if (cur[p] != EMPTY && b != s->v[2]) bad = fail(id, i + 1, "bcol returned by the scheduler", s->v[2], b);
	    else if (sh.tasks_remain != s->v[3]) bad = fail(id, i + 1, "tasks_remain after the section", s->v[3], sh.tasks_remain);
	    else if (sh.taskq.count != s->v[4]) bad = fail(id, i + 1, "queue count after the section", s->v[4], sh.taskq.count);
	    if (cur[p] != EMPTY) bc[p] = b;
	    break; }
	case 3: {
	    int cnt = 0;
	    if (cur[p] != s->v[0]) { bad = fail(id, i + 1, "panel being marked", s->v[0], cur[p]); break; }
	    pxgstrf_mark_busy_descends(p, cur[p], etree, &sh, &bc[p], lbusy[p]);
	    markj[p] = cur[p];
	    for (k = 0; k < n; ++k) if (lbusy[p][k] == cur[p]) ++cnt;
	    if (bc[p] != s->v[1]) bad = fail(id, i + 1, "bcol after mark_busy_descends", s->v[1], bc[p]);
	    else if (cnt != s->v[2]) bad = fail(id, i + 1, "number of columns marked busy", s->v[2], cnt);
	    break; }
	case 4: {
	    int_t jc = cur[p], w;
	    if (jc != s->v[0]) { bad = fail(id, i + 1, "panel being finished", s->v[0], jc); break; }
	    w = sh.pan_status[jc].size;
	    if (s->k != 2 + 2 * w) { bad = fail(id, i + 1, "panel width", (s->k - 2) / 2, w); break; }
	    for (k = 0; k < w; ++k) {       /* what the numerical part would have stored: supernode numbering */
		int_t sn = s->v[2 + k], fs = s->v[2 + w + k];
		Glu.supno[jc + k] = sn; Glu.xsup[sn] = fs; Glu.xsup_end[sn] = jc + k + 1;
		sh.spin_locks[jc + k] = 0;                       /* column released */
	    }
	    Glu.nsuper = s->v[1];
	    sh.pan_status[jc].state = DONE;                       /* STATE(jcol) = DONE */
	    break; }
	}
    }
    if (!bad && fin) {     /* complete state after the last step */
	const int *f = fin;
	for (i = 0; !bad && i < npan; ++i, ++f) if ((int) sh.pan_status[lead[i]].state != *f) bad = fail(id, ns, "state of panel", *f, sh.pan_status[lead[i]].state * 1000 + lead[i]);
	for (i = 0; !bad && i < npan; ++i, ++f) if (sh.pan_status[lead[i]].ukids != *f) bad = fail(id, ns, "ukids of panel", *f, sh.pan_status[lead[i]].ukids * 1000 + lead[i]);
	if (!bad && sh.pan_status[n].ukids != *f) bad = fail(id, ns, "ukids of the root", *f, sh.pan_status[n].ukids);
	++f;
	for (i = 0; !bad && i < npan; ++i, ++f) if (sh.fb_cols[lead[i]] != *f) bad = fail(id, ns, "fb_cols of panel", *f, sh.fb_cols[lead[i]] * 1000 + lead[i]);
	for (i = 0; !bad && i < n; ++i, ++f) if (sh.spin_locks[i] != *f) bad = fail(id, ns, "spin_locks", *f, sh.spin_locks[i] * 1000 + i);
	for (p = 0; !bad && p < P; ++p) {
	    if (cur[p] != wv[p][0]) bad = fail(id, ns, "current panel of worker", wv[p][0], cur[p]);
	    else if (bc[p] != wv[p][1]) bad = fail(id, ns, "bcol of worker", wv[p][1], bc[p]);
	    for (k = 0; !bad && k < n; ++k) {
		int got = (markj[p] != -2 && markj[p] != EMPTY && lbusy[p][k] == markj[p]);
		if (got != wv[p][2 + k]) bad = fail(id, ns, "lbusy of worker", wv[p][2 + k], got * 1000 + k);
	    }
	}
    }
    ParallelFinalize(&sh);
    for (p = 0; p < P; ++p) SUPERLU_FREE(lbusy[p]);
    SUPERLU_FREE(rl); SUPERLU_FREE(Glu.supno); SUPERLU_FREE(Glu.xsup); SUPERLU_FREE(Glu.xsup_end);
    StatFree(&Gstat);
    return bad;
}

int main(int argc, char **argv)
{
    FILE *f; char tag[16]; int i, k; long id = 0; int ns = 0, have = 0, si = 0;
    static int fin[4 * MAXN + 4]; static int wv[MAXP][MAXN + 2]; int wi = 0;
    if (argc < 3) { fprintf(stderr, "usage: drv_sched tests.txt out.ndjson\n"); return 2; }
    f = fopen(argv[1], "r"); of = fopen(argv[2], "w"); if (!f || !of) return 2;
    { int fd = open("/dev/null", 1); if (fd >= 0) dup2(fd, 1); }
    while (fscanf(f, "%15s", tag) == 1) {
	if (!strcmp(tag, "cfg")) { if (fscanf(f, "%d %d %d %d %d %d", &n, &ps, &relax, &P, &npan, &maxsuper) != 6 || n > MAXN - 2 || P > MAXP) return 3;
	    vrt_ienv[1] = ps; vrt_ienv[2] = relax; vrt_ienv[3] = maxsuper; }   /* what sp_ienv() answers inside the library */
	else if (!strcmp(tag, "etree")) { for (i = 0; i < n; ++i) { long e; if (fscanf(f, "%ld", &e) != 1) return 3; etree[i] = e; } }
	else if (!strcmp(tag, "pst")) { for (i = 0; i < npan; ++i) if (fscanf(f, "%d %d %d", &lead[i], &psz[i], &pty[i]) != 3) return 3; }
	else if (!strcmp(tag, "rlx")) { if (fscanf(f, "%d", &nq) != 1) return 3; for (i = 0; i < nq; ++i) if (fscanf(f, "%d", &q0[i]) != 1) return 3; }
	else if (!strcmp(tag, "test")) { if (fscanf(f, "%ld %d", &id, &ns) != 2 || ns > MAXS) return 3; si = 0; wi = 0; have = 1; }
	else if (!strcmp(tag, "s")) { step_t *s = &steps[si++]; if (fscanf(f, "%d %d %d", &s->code, &s->p, &s->k) != 3) return 3; for (k = 0; k < s->k; ++k) if (fscanf(f, "%d", &s->v[k]) != 1) return 3; }
	else if (!strcmp(tag, "fin")) { for (i = 0; i < 3 * npan + 1 + n; ++i) if (fscanf(f, "%d", &fin[i]) != 1) return 3; }
	else if (!strcmp(tag, "nofin")) { if (have) { ++ntests; if (run_test(id, ns, 0, wv)) ++nfailed; have = 0; } }
	else if (!strcmp(tag, "w")) {
	    for (i = 0; i < n + 2; ++i) if (fscanf(f, "%d", &wv[wi][i]) != 1) return 3;
	    if (++wi == P && have) { ++ntests; if (run_test(id, ns, fin, wv)) ++nfailed; have = 0; }
	}
	else return 3;
    }
    fprintf(of, "{\"tests\":%ld,\"steps\":%ld,\"failed\":%ld}\n", ntests, nsteps_total, nfailed);
    fclose(of);
    return 0;
}
