/* --wrap shims recording the ?gscon / ?lacon / sp_?trsv protocol (linked into drv_api only). */
#include <math.h>
#include "slu_mt_ddefs.h"
#include "slu_scomplex.h"
#include "slu_dcomplex.h"
extern void vrt_emit(const char *name, int p, int nargs, const long *args);

/* ------------------------------------------------------------------ reverse-communication estimator and its callers
 * With -Wl,--wrap=?lacon_,--wrap=?gscon,--wrap=?gsrfs,--wrap=sp_?trsv the protocol between the
 * condition / error-bound estimators and ?lacon is recorded: which kase went in and came out of every
 * call, and which triangular solves the caller performed in between (validated against SluLacon.tla). */
extern int_t __real_slacon_(int_t *, void *, void *, int_t *, void *, int_t *) ;
extern int_t __real_dlacon_(int_t *, void *, void *, int_t *, void *, int_t *) ;
extern int_t __real_clacon_(int_t *, void *, void *, void *, int_t *) ;
extern int_t __real_zlacon_(int_t *, void *, void *, void *, int_t *) ;
/* Besides kase in / out, the one data-dependent decision of the estimator that can be observed from outside without its statics is logged:
 * at a call with kase = 2 after a unit vector e_j was handed out (entry JUMP = 4), the estimator goes on iff x[j_last] != max|x| and
 * iter < 5.  neq = 1 / 0 is that inequality on the vector passed in (real parts for complex data, as i?max1 and the test use them),
 * -1 when no unit vector precedes (first transposed product).  SluLacon then knows which branch the call MUST take for an
 * iteration counter that restarts at every estimate. */
static long lacon_unit_j = -1;
static long lacon_neq(int_t n, const void *x, int cplx, int dbl, int_t kin)
{
    long i, neq = -1; double mx = 0, xl = 0;
    if (kin == 0) lacon_unit_j = -1;
    if (kin != 2 || lacon_unit_j < 0 || lacon_unit_j >= n) return -1;
    for (i = 0; i < n; ++i) {
	double r = dbl ? ((const double *) x)[cplx ? 2 * i : i] : (double) ((const float *) x)[cplx ? 2 * i : i];
	if (fabs(r) > mx) mx = fabs(r);
	if (i == lacon_unit_j) xl = r;
    }
    if (!dbl) { neq = ((float) xl != (float) mx); } else neq = (xl != mx);
    return neq;
}
static void lacon_after(int_t n, const void *x, int cplx, int dbl, int_t kin, int_t kout)
{
    long i, one = -1, ok = 1;
    if (!(kin == 2 && kout == 1)) { if (kin != 1 || kout != 2) lacon_unit_j = (kin == 1 && kout == 1) ? -1 : lacon_unit_j; return; }
    for (i = 0; i < n && ok; ++i) {
	double r = dbl ? ((const double *) x)[cplx ? 2 * i : i] : (double) ((const float *) x)[cplx ? 2 * i : i];
	double im = cplx ? (dbl ? ((const double *) x)[2 * i + 1] : (double) ((const float *) x)[2 * i + 1]) : 0.0;
	if (r == 1.0 && im == 0.0) { if (one >= 0) ok = 0; one = i; } else if (r != 0.0 || im != 0.0) ok = 0;
    }
    lacon_unit_j = (ok && one >= 0) ? one : -1;
}
static void lacon_ev(int_t n, int_t kin, int_t kout, long neq) { long a[4]; a[0] = n; a[1] = kin; a[2] = kout; a[3] = neq; vrt_emit("Lacon", -1, 4, a); }
int_t __wrap_slacon_(int_t *n, void *v, void *x, int_t *isgn, void *est, int_t *kase) { int_t k = *kase, r; long q = lacon_neq(*n, x, 0, 0, k); r = __real_slacon_(n, v, x, isgn, est, kase); lacon_after(*n, x, 0, 0, k, *kase); lacon_ev(*n, k, *kase, q); return r; }
int_t __wrap_dlacon_(int_t *n, void *v, void *x, int_t *isgn, void *est, int_t *kase) { int_t k = *kase, r; long q = lacon_neq(*n, x, 0, 1, k); r = __real_dlacon_(n, v, x, isgn, est, kase); lacon_after(*n, x, 0, 1, k, *kase); lacon_ev(*n, k, *kase, q); return r; }
int_t __wrap_clacon_(int_t *n, void *v, void *x, void *est, int_t *kase) { int_t k = *kase, r; long q = lacon_neq(*n, x, 1, 0, k); r = __real_clacon_(n, v, x, est, kase); lacon_after(*n, x, 1, 0, k, *kase); lacon_ev(*n, k, *kase, q); return r; }
int_t __wrap_zlacon_(int_t *n, void *v, void *x, void *est, int_t *kase) { int_t k = *kase, r; long q = lacon_neq(*n, x, 1, 1, k); r = __real_zlacon_(n, v, x, est, kase); lacon_after(*n, x, 1, 1, k, *kase); lacon_ev(*n, k, *kase, q); return r; }
#define WRAP_TRSV(P) \
extern int_t __real_sp_##P##trsv(char *, char *, char *, void *, void *, void *, int_t *) ; \
extern int_t slu_sv_sp_##P##trsv(char *, char *, char *, void *, void *, void *, int_t *) ; \
int_t __wrap_sp_##P##trsv(char *uplo, char *trans, char *diag, void *L, void *U, void *x, int_t *info) \
{ long a[2]; a[0] = (uplo[0] == 'L' || uplo[0] == 'l') ? 1 : 2; a[1] = (trans[0] == 'N' || trans[0] == 'n') ? 0 : ((trans[0] == 'T' || trans[0] == 't') ? 1 : 2); \
  vrt_emit("Trsv", -1, 2, a); return slu_sv_sp_##P##trsv(uplo, trans, diag, L, U, x, info); }
WRAP_TRSV(s) WRAP_TRSV(d) WRAP_TRSV(c) WRAP_TRSV(z)
#define WRAP_GSCON(P, RT) \
extern void __real_##P##gscon(char *, void *, void *, RT, RT *, int_t *) ; \
void __wrap_##P##gscon(char *norm, void *L, void *U, RT anorm, RT *rcond, int_t *info) \
{ long a[1]; a[0] = (norm[0] == '1' || norm[0] == 'O' || norm[0] == 'o') ? 1 : 2; vrt_emit("GsconBegin", -1, 1, a); \
  __real_##P##gscon(norm, L, U, anorm, rcond, info); vrt_emit("GsconEnd", -1, 1, a); }
WRAP_GSCON(s, float) WRAP_GSCON(d, double) WRAP_GSCON(c, float) WRAP_GSCON(z, double)

/* ------------------------------------------------------------------ iterative refinement (?gsrfs): SluRefine.tla
 * RfsBegin(trans, nrhs, n) ... RfsEnd bracket the routine; inside, every sp_?gemv (Gemv trans), ?gstrs (Gstrs trans) and
 * ?lacon call (Lacon, above) is recorded.  ?gstrs and sp_?gemv are also called from elsewhere: the consumer
 * (lib/lacon.py) only looks at the events between RfsBegin and RfsEnd. */
static long tcode(int c) { return (c == 'N' || c == 'n') ? 0 : ((c == 'T' || c == 't') ? 1 : 2); }
#define WRAP_GSRFS(P, RT) \
extern void __real_##P##gsrfs(trans_t, SuperMatrix *, SuperMatrix *, SuperMatrix *, int_t *, int_t *, equed_t, RT *, RT *, SuperMatrix *, SuperMatrix *, RT *, RT *, Gstat_t *, int_t *); \
void __wrap_##P##gsrfs(trans_t trans, SuperMatrix *A, SuperMatrix *L, SuperMatrix *U, int_t *perm_r, int_t *perm_c, equed_t equed, RT *R, RT *C, \
		       SuperMatrix *B, SuperMatrix *X, RT *ferr, RT *berr, Gstat_t *G, int_t *info) \
{ long a[3]; a[0] = (long) trans; a[1] = B ? B->ncol : -1; a[2] = A ? A->nrow : -1; vrt_emit("RfsBegin", -1, 3, a); \
  __real_##P##gsrfs(trans, A, L, U, perm_r, perm_c, equed, R, C, B, X, ferr, berr, G, info); a[1] = *info; vrt_emit("RfsEnd", -1, 2, a); } \
extern void __real_##P##gstrs(trans_t, SuperMatrix *, SuperMatrix *, int_t *, int_t *, SuperMatrix *, Gstat_t *, int_t *); \
extern void slu_sv_##P##gstrs(trans_t, SuperMatrix *, SuperMatrix *, int_t *, int_t *, SuperMatrix *, Gstat_t *, int_t *); \
void __wrap_##P##gstrs(trans_t trans, SuperMatrix *L, SuperMatrix *U, int_t *perm_r, int_t *perm_c, SuperMatrix *B, Gstat_t *G, int_t *info) \
{ long a[2]; a[0] = (long) trans; a[1] = B ? B->ncol : -1; vrt_emit("Gstrs", -1, 2, a); slu_sv_##P##gstrs(trans, L, U, perm_r, perm_c, B, G, info); }
WRAP_GSRFS(s, float) WRAP_GSRFS(d, double) WRAP_GSRFS(c, float) WRAP_GSRFS(z, double)
extern int_t __real_sp_sgemv(char *, float, SuperMatrix *, float *, int_t, float, float *, int_t);
int_t __wrap_sp_sgemv(char *t, float al, SuperMatrix *A, float *x, int_t ix, float be, float *y, int_t iy) { long a[1]; a[0] = tcode(t[0]); vrt_emit("Gemv", -1, 1, a); return __real_sp_sgemv(t, al, A, x, ix, be, y, iy); }
extern int_t __real_sp_dgemv(char *, double, SuperMatrix *, double *, int_t, double, double *, int_t);
int_t __wrap_sp_dgemv(char *t, double al, SuperMatrix *A, double *x, int_t ix, double be, double *y, int_t iy) { long a[1]; a[0] = tcode(t[0]); vrt_emit("Gemv", -1, 1, a); return __real_sp_dgemv(t, al, A, x, ix, be, y, iy); }
extern int_t __real_sp_cgemv(char *, complex, SuperMatrix *, complex *, int_t, complex, complex *, int_t);
int_t __wrap_sp_cgemv(char *t, complex al, SuperMatrix *A, complex *x, int_t ix, complex be, complex *y, int_t iy) { long a[1]; a[0] = tcode(t[0]); vrt_emit("Gemv", -1, 1, a); return __real_sp_cgemv(t, al, A, x, ix, be, y, iy); }
extern int_t __real_sp_zgemv(char *, doublecomplex, SuperMatrix *, doublecomplex *, int_t, doublecomplex, doublecomplex *, int_t);
int_t __wrap_sp_zgemv(char *t, doublecomplex al, SuperMatrix *A, doublecomplex *x, int_t ix, doublecomplex be, doublecomplex *y, int_t iy) { long a[1]; a[0] = tcode(t[0]); vrt_emit("Gemv", -1, 1, a); return __real_sp_zgemv(t, al, A, x, ix, be, y, iy); }

/* ------------------------------------------------------------------ triangular solves (?gstrs, sp_?trsv): SluSolve.tla
 * SvBegin(kind, a1, a2, a3, nrhs, ldb, n | fsupc nsupc nsupr luptr per supernode, in number order) ... SvEnd bracket one ?gstrs
 * (kind 0: a1 = trans) or one sp_?trsv (kind 1: a1 = uplo 1 L / 2 U, a2 = trans, a3 = 1 unit diagonal).  Inside, every dense
 * kernel the sweep hands a supernode to is recorded as SvCall(code, a, b, c, offset of the matrix block in the values of L,
 * offset of the vector in B / x): 1 ?lsolve(ldm, ncol), 2 ?matvec(ldm, nrow, ncol), 3 ?usolve(ldm, ncol), 4 sp_?trsv called by
 * ?gstrs (uplo, trans, diag), 5 the BLAS ?trsv_ (100 uplo + 10 trans + diag, n, lda); in the USE_VENDOR_BLAS configuration also
 * 6 ?trsm_ (1000 side + 100 uplo + 10 trans + diag, m, n, lda, ldb), 7 ?gemm_ (m, n, k, lda, ldb), 8 ?gemv_ (trans, m, n, lda, incx).
 * The kernels are also used by the factorization (other threads): the bracket is thread-local. */
extern void vrt_emit_list(const char *name, int p, int nargs, const long *args, const long *list, long nlist);
static __thread int sv_depth = 0;
static __thread const char *sv_M = 0, *sv_x = 0;
static __thread long sv_es = 1;
static int sv_begin(long kind, long a1, long a2, long a3, long nrhs, long ldb, SuperMatrix *L, const void *x, long es)
{
    SCPformat *Ls; long a[7], k, ns;
    if (!L || L->Stype != SLU_SCP || !L->Store || L->nrow != L->ncol || L->nrow < 0) return 0;
    Ls = (SCPformat *) L->Store;
    ns = L->nrow > 0 ? Ls->nsuper + 1 : 0;
    if (ns < 0 || ns > L->nrow) return 0;
    if (ns > 20000) return 0;
    { long l[4 * ns + 1];     /* not malloc: the harness counts the library's requests */
    for (k = 0; k < ns; ++k) {
	long fs = Ls->sup_to_colbeg[k];
	l[4 * k] = fs; l[4 * k + 1] = Ls->sup_to_colend[k] - fs;
	if (fs < 0 || fs >= L->nrow) { l[4 * k + 2] = -1; l[4 * k + 3] = -1; continue; }
	l[4 * k + 2] = Ls->rowind_colend[fs] - Ls->rowind_colbeg[fs]; l[4 * k + 3] = Ls->nzval_colbeg[fs];
    }
    a[0] = kind; a[1] = a1; a[2] = a2; a[3] = a3; a[4] = nrhs; a[5] = ldb; a[6] = L->nrow;
    vrt_emit_list("SvBegin", -1, 7, a, l, 4 * ns); }
    sv_M = (const char *) Ls->nzval; sv_x = (const char *) x; sv_es = es;
    return 1;
}
static void sv_call8(long code, long a, long b, long c, long d, long e, const void *M, const void *x)
{
    long v[8]; v[0] = code; v[1] = a; v[2] = b; v[3] = c; v[4] = d; v[5] = e;
    v[6] = M ? (long) (((const char *) M - sv_M) / sv_es) : 0; v[7] = (long) (((const char *) x - sv_x) / sv_es);
    vrt_emit("SvCall", -1, 8, v);
}
static void sv_call(long code, long a, long b, long c, const void *M, const void *x) { sv_call8(code, a, b, c, 0, 0, M, x); }
static long ucode(int c) { return (c == 'L' || c == 'l') ? 1 : 2; }
static long dcode(int c) { return (c == 'U' || c == 'u') ? 1 : 0; }
#define WRAP_SOLVE(P, ES) \
extern void __real_##P##lsolve(int_t, int_t, void *, void *); \
void __wrap_##P##lsolve(int_t ldm, int_t ncol, void *M, void *rhs) { if (sv_depth) sv_call(1, ldm, ncol, 0, M, rhs); __real_##P##lsolve(ldm, ncol, M, rhs); } \
extern void __real_##P##usolve(int_t, int_t, void *, void *); \
void __wrap_##P##usolve(int_t ldm, int_t ncol, void *M, void *rhs) { if (sv_depth) sv_call(3, ldm, ncol, 0, M, rhs); __real_##P##usolve(ldm, ncol, M, rhs); } \
extern void __real_##P##matvec(int_t, int_t, int_t, void *, void *, void *); \
void __wrap_##P##matvec(int_t ldm, int_t nrow, int_t ncol, void *M, void *vec, void *Mxvec) { if (sv_depth) sv_call(2, ldm, nrow, ncol, M, vec); __real_##P##matvec(ldm, nrow, ncol, M, vec, Mxvec); } \
extern int __real_##P##trsv_(char *, char *, char *, int *, void *, int *, void *, int *); \
int __wrap_##P##trsv_(char *uplo, char *trans, char *diag, int *n, void *a, int *lda, void *x, int *incx) \
{ if (sv_depth) sv_call(5, 100 * ucode(uplo[0]) + 10 * tcode(trans[0]) + dcode(diag[0]), *n, *lda, a, x); return __real_##P##trsv_(uplo, trans, diag, n, a, lda, x, incx); } \
int_t slu_sv_sp_##P##trsv(char *uplo, char *trans, char *diag, void *L, void *U, void *x, int_t *info) \
{ int d0 = sv_depth, on; const char *M0 = sv_M, *x0 = sv_x; long es0 = sv_es; int_t r; \
  if (d0) sv_call(4, ucode(uplo[0]), tcode(trans[0]), dcode(diag[0]), 0, x); \
  on = sv_begin(1, ucode(uplo[0]), tcode(trans[0]), dcode(diag[0]), 1, 0, (SuperMatrix *) L, x, ES); if (on) sv_depth = 2; \
  r = __real_sp_##P##trsv(uplo, trans, diag, L, U, x, info); \
  if (on) { long e[1]; e[0] = *info; vrt_emit("SvEnd", -1, 1, e); } sv_depth = d0; sv_M = M0; sv_x = x0; sv_es = es0; return r; } \
void slu_sv_##P##gstrs(trans_t trans, SuperMatrix *L, SuperMatrix *U, int_t *perm_r, int_t *perm_c, SuperMatrix *B, Gstat_t *G, int_t *info) \
{ int on = 0; DNformat *Bs = (B && B->Stype == SLU_DN) ? (DNformat *) B->Store : 0; \
  if (Bs && (trans == NOTRANS || trans == TRANS || trans == CONJ) && B->ncol >= 0 && L && Bs->lda >= L->nrow && U && U->nrow == U->ncol && U->nrow == L->nrow) \
      on = sv_begin(0, (long) trans, 0, 0, B->ncol, Bs->lda, L, Bs->nzval, ES); \
  if (on) sv_depth = 1; \
  __real_##P##gstrs(trans, L, U, perm_r, perm_c, B, G, info); \
  if (on) { long e[1]; e[0] = *info; vrt_emit("SvEnd", -1, 1, e); } sv_depth = 0; }
WRAP_SOLVE(s, 4) WRAP_SOLVE(d, 8) WRAP_SOLVE(c, 8) WRAP_SOLVE(z, 16)
/* the level-2/3 BLAS the USE_VENDOR_BLAS configuration hands the supernodes to (?trsm_ / ?gemm_ exist only in that link: weak) */
#define WRAP_VENDOR(P) \
extern int __real_##P##trsm_(char *, char *, char *, char *, int *, int *, void *, void *, int *, void *, int *) __attribute__((weak)); \
int __wrap_##P##trsm_(char *side, char *uplo, char *ta, char *diag, int *m, int *n, void *alpha, void *a, int *lda, void *b, int *ldb) \
{ if (sv_depth) sv_call8(6, 1000 * ((side[0] == 'L' || side[0] == 'l') ? 1 : 2) + 100 * ucode(uplo[0]) + 10 * tcode(ta[0]) + dcode(diag[0]), *m, *n, *lda, *ldb, a, b); \
  return __real_##P##trsm_(side, uplo, ta, diag, m, n, alpha, a, lda, b, ldb); } \
extern int __real_##P##gemm_(char *, char *, int *, int *, int *, void *, void *, int *, void *, int *, void *, void *, int *) __attribute__((weak)); \
int __wrap_##P##gemm_(char *ta, char *tb, int *m, int *n, int *k, void *alpha, void *a, int *lda, void *b, int *ldb, void *beta, void *c, int *ldc) \
{ if (sv_depth) sv_call8(7, *m, *n, *k, *lda, *ldb, a, b); return __real_##P##gemm_(ta, tb, m, n, k, alpha, a, lda, b, ldb, beta, c, ldc); } \
extern int __real_##P##gemv_(char *, int *, int *, void *, void *, int *, void *, int *, void *, void *, int *); \
int __wrap_##P##gemv_(char *t, int *m, int *n, void *alpha, void *a, int *lda, void *x, int *incx, void *beta, void *y, int *incy) \
{ if (sv_depth) sv_call8(8, tcode(t[0]), *m, *n, *lda, *incx, a, x); return __real_##P##gemv_(t, m, n, alpha, a, lda, x, incx, beta, y, incy); }
WRAP_VENDOR(s) WRAP_VENDOR(d) WRAP_VENDOR(c) WRAP_VENDOR(z)
