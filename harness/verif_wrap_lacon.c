/* --wrap shims recording the ?gscon / ?lacon / sp_?trsv protocol (linked into drv_api only). */
#include "slu_mt_ddefs.h"
extern void vrt_emit(const char *name, int p, int nargs, const long *args);

/* ------------------------------------------------------------------ reverse-communication estimator and its callers
 * With -Wl,--wrap=?lacon_,--wrap=?gscon,--wrap=?gsrfs,--wrap=sp_?trsv the protocol between the
 * condition / error-bound estimators and ?lacon is recorded: which kase went in and came out of every
 * call, and which triangular solves the caller performed in between (validated against SluLacon.tla). */
extern int_t __real_slacon_(int_t *, void *, void *, int_t *, void *, int_t *) ;
extern int_t __real_dlacon_(int_t *, void *, void *, int_t *, void *, int_t *) ;
extern int_t __real_clacon_(int_t *, void *, void *, void *, int_t *) ;
extern int_t __real_zlacon_(int_t *, void *, void *, void *, int_t *) ;
static void lacon_ev(int_t n, int_t kin, int_t kout) { long a[3]; a[0] = n; a[1] = kin; a[2] = kout; vrt_emit("Lacon", -1, 3, a); }
int_t __wrap_slacon_(int_t *n, void *v, void *x, int_t *isgn, void *est, int_t *kase) { int_t k = *kase, r = __real_slacon_(n, v, x, isgn, est, kase); lacon_ev(*n, k, *kase); return r; }
int_t __wrap_dlacon_(int_t *n, void *v, void *x, int_t *isgn, void *est, int_t *kase) { int_t k = *kase, r = __real_dlacon_(n, v, x, isgn, est, kase); lacon_ev(*n, k, *kase); return r; }
int_t __wrap_clacon_(int_t *n, void *v, void *x, void *est, int_t *kase) { int_t k = *kase, r = __real_clacon_(n, v, x, est, kase); lacon_ev(*n, k, *kase); return r; }
int_t __wrap_zlacon_(int_t *n, void *v, void *x, void *est, int_t *kase) { int_t k = *kase, r = __real_zlacon_(n, v, x, est, kase); lacon_ev(*n, k, *kase); return r; }
#define WRAP_TRSV(P) \
extern int_t __real_sp_##P##trsv(char *, char *, char *, void *, void *, void *, int_t *) ; \
int_t __wrap_sp_##P##trsv(char *uplo, char *trans, char *diag, void *L, void *U, void *x, int_t *info) \
{ long a[2]; a[0] = (uplo[0] == 'L' || uplo[0] == 'l') ? 1 : 2; a[1] = (trans[0] == 'N' || trans[0] == 'n') ? 0 : ((trans[0] == 'T' || trans[0] == 't') ? 1 : 2); \
  vrt_emit("Trsv", -1, 2, a); return __real_sp_##P##trsv(uplo, trans, diag, L, U, x, info); }
WRAP_TRSV(s) WRAP_TRSV(d) WRAP_TRSV(c) WRAP_TRSV(z)
#define WRAP_GSCON(P, RT) \
extern void __real_##P##gscon(char *, void *, void *, RT, RT *, int_t *) ; \
void __wrap_##P##gscon(char *norm, void *L, void *U, RT anorm, RT *rcond, int_t *info) \
{ long a[1]; a[0] = (norm[0] == '1' || norm[0] == 'O' || norm[0] == 'o') ? 1 : 2; vrt_emit("GsconBegin", -1, 1, a); \
  __real_##P##gscon(norm, L, U, anorm, rcond, info); vrt_emit("GsconEnd", -1, 1, a); }
WRAP_GSCON(s, float) WRAP_GSCON(d, double) WRAP_GSCON(c, float) WRAP_GSCON(z, double)
