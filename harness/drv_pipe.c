/* drv_pipe: run real multithreaded factorizations (p?gstrf) on generated
 * matrices, record the trace of pipeline events through the SLU_MT_VERIF
 * hooks, and append the projected result (structure of L/U, permutations,
 * oracle ratios).  One job per input line; every job runs in a forked child
 * under a watchdog so that a crash or a hang is an observable outcome.
 *
 * usage: drv_pipe jobs.txt      (see parse_job for the keys)
 * stdout: one line per job:  JOB id=<id> status=<ok|signal:N|timeout|exit:N> out=<file>
 */
#define _GNU_SOURCE
#include "prec.h"
#include "verif_rt.h"
#include "oracle.h"
#include "matgen.h"
#include <unistd.h>
#include <sys/wait.h>
#include <signal.h>
#include <time.h>

typedef struct {
    char id[64], gen[16], out[512];
    int n, P, ps, relax, maxsuper, pert, order, dens, lowfill, kl, ku, vstyle, full, timeout, nrhs, last, fulldiag;
    int refact, dyn, sym, ie4, ie5, nzc, zc[64]; long lwork; char focus[32]; int focuspct, focusus; int usepr, npermr, permr[256], zd, fill6, fill7, fill8;
    unsigned long seed; double u; int par[4096]; int npar; char patstr[4096];
} job_t;

static void parse_job(char *line, job_t *J)
{
    char *tok, *save = 0;
    memset(J, 0, sizeof *J);
    strcpy(J->gen, "forest"); J->P = 2; J->ps = 4; J->relax = 2; J->maxsuper = 3; J->dens = 60; J->u = 1.0;
    J->timeout = 60; J->nrhs = 1; J->full = 1; J->seed = 1; J->order = -1; J->kl = 1; J->ku = 1;
    for (tok = strtok_r(line, " \t\n", &save); tok; tok = strtok_r(0, " \t\n", &save)) {
	char *eq = strchr(tok, '='), *v; if (!eq) continue; *eq = 0; v = eq + 1;
	if (!strcmp(tok, "id")) strncpy(J->id, v, 63);
	else if (!strcmp(tok, "gen")) strncpy(J->gen, v, 15);
	else if (!strcmp(tok, "out")) strncpy(J->out, v, 511);
	else if (!strcmp(tok, "n")) J->n = atoi(v);
	else if (!strcmp(tok, "P")) J->P = atoi(v);
	else if (!strcmp(tok, "ps")) J->ps = atoi(v);
	else if (!strcmp(tok, "relax")) J->relax = atoi(v);
	else if (!strcmp(tok, "maxsuper")) J->maxsuper = atoi(v);
	else if (!strcmp(tok, "pert")) J->pert = atoi(v);
	else if (!strcmp(tok, "order")) J->order = atoi(v);
	else if (!strcmp(tok, "dens")) J->dens = atoi(v);
	else if (!strcmp(tok, "lowfill")) J->lowfill = atoi(v);
	else if (!strcmp(tok, "kl")) J->kl = atoi(v);
	else if (!strcmp(tok, "ku")) J->ku = atoi(v);
	else if (!strcmp(tok, "last")) J->last = atoi(v);
	else if (!strcmp(tok, "fulldiag")) J->fulldiag = atoi(v);
	else if (!strcmp(tok, "vstyle")) J->vstyle = atoi(v);
	else if (!strcmp(tok, "full")) J->full = atoi(v);
	else if (!strcmp(tok, "timeout")) J->timeout = atoi(v);
	else if (!strcmp(tok, "nrhs")) J->nrhs = atoi(v);
	else if (!strcmp(tok, "seed")) J->seed = strtoul(v, 0, 10);
	else if (!strcmp(tok, "u")) J->u = atof(v);
	else if (!strcmp(tok, "pat")) strncpy(J->patstr, v, 4095);
	else if (!strcmp(tok, "refact")) J->refact = atoi(v);
	else if (!strcmp(tok, "dyn")) J->dyn = atoi(v);
	else if (!strcmp(tok, "sym")) J->sym = atoi(v);
	else if (!strcmp(tok, "ie4")) J->ie4 = atoi(v);       /* sp_ienv(4), sp_ienv(5): cut-offs of the 2-D blocked supernode-panel update */
	else if (!strcmp(tok, "ie5")) J->ie5 = atoi(v);
	else if (!strcmp(tok, "usepr")) J->usepr = atoi(v);
	else if (!strcmp(tok, "zd")) J->zd = atoi(v);
	else if (!strcmp(tok, "fill6")) J->fill6 = atoi(v);
	else if (!strcmp(tok, "fill7")) J->fill7 = atoi(v);
	else if (!strcmp(tok, "fill8")) J->fill8 = atoi(v);
	else if (!strcmp(tok, "permr")) {
	    char *s2 = 0, *t; J->npermr = 0;
	    for (t = strtok_r(v, ",", &s2); t && J->npermr < 256; t = strtok_r(0, ",", &s2)) J->permr[J->npermr++] = atoi(t);
	}
	else if (!strcmp(tok, "focus")) strncpy(J->focus, v, 31);
	else if (!strcmp(tok, "focuspct")) J->focuspct = atoi(v);
	else if (!strcmp(tok, "focusus")) J->focusus = atoi(v);
	else if (!strcmp(tok, "lwork")) J->lwork = atol(v);
	else if (!strcmp(tok, "zc")) {
	    char *s2 = 0, *t; J->nzc = 0;
	    for (t = strtok_r(v, ",", &s2); t && J->nzc < 64; t = strtok_r(0, ",", &s2)) J->zc[J->nzc++] = atoi(t);
	}
	else if (!strcmp(tok, "par")) {
	    char *s2 = 0, *t; J->npar = 0;
	    for (t = strtok_r(v, ",", &s2); t && J->npar < 4095; t = strtok_r(0, ",", &s2)) J->par[++J->npar] = atoi(t);
	}
    }
    if (!strcmp(J->gen, "forest")) J->n = J->npar;
}

static void put_list(FILE *f, const char *key, const int_t *a, long n, long add)
{
    long i; fprintf(f, ",\"%s\":[", key);
    for (i = 0; i < n; ++i) fprintf(f, "%s%ld", i ? "," : "", (long) a[i] + add);
    fprintf(f, "]");
}

static int run_job(job_t *J)
{
    rng_t R; mat_t M; char *pat = 0; int_t n = J->n, i, j, info = 0;
    SuperMatrix A, AC, L, U, B; superlumt_options_t o; Gstat_t G;
    int_t *perm_c, *perm_r; FILE *f; unsigned long cksA[3];
    int thr_before, thr_after; void *work = 0; int_t *old_pr = 0; int use_old = 0;
    R.s = J->seed * 7919ul + 17;
    if (!strcmp(J->gen, "forest")) pat = pat_forest(n, J->par, J->dens, J->lowfill, &R);
    else if (!strcmp(J->gen, "random")) pat = pat_random(n, J->dens, J->fulldiag, &R);
    else if (!strcmp(J->gen, "banded")) pat = pat_banded(n, J->kl, J->ku);
    else if (!strcmp(J->gen, "arrow")) pat = pat_arrow(n, J->last);
    else if (!strcmp(J->gen, "grid")) { pat = pat_grid(J->kl); n = J->kl * J->kl; }
    else if (!strcmp(J->gen, "pattern")) {   /* pat=<n*n chars of 0/1, row-major> */
	pat = (char *) calloc((size_t) n * n, 1);
	for (i = 0; i < n; ++i) for (j = 0; j < n; ++j) pat[i + (long) j * n] = J->patstr[i * n + j] == '1';
    } else { fprintf(stderr, "unknown generator %s\n", J->gen); return 3; }
    mat_from_pattern(&M, n, pat, J->vstyle, &R);
    for (i = 0; i < J->nzc; ++i) if (J->zc[i] >= 0 && J->zc[i] < n)
	for (j = M.colptr[J->zc[i]]; j < M.colptr[J->zc[i] + 1]; ++j) M.val[j] = mk_scalar(0.0, 0.0);
    if (J->zd) for (j = 0; j < n; ++j) for (i = M.colptr[j]; i < M.colptr[j + 1]; ++i)      /* explicit zeros on the diagonal */
	if (M.rowind[i] == j && (int) rng_int(&R, 100) < J->zd) M.val[i] = mk_scalar(0.0, 0.0);
    G(Create_CompCol_Matrix)(&A, n, n, M.nnz, M.val, M.rowind, M.colptr, SLU_NC, SLU_DT, SLU_GE);
    cksA[0] = fnv(M.val, sizeof(SCALAR) * M.nnz); cksA[1] = fnv(M.rowind, sizeof(int_t) * M.nnz); cksA[2] = fnv(M.colptr, sizeof(int_t) * (n + 1));
    vrt_ienv[1] = J->ps; vrt_ienv[2] = J->relax; vrt_ienv[3] = J->maxsuper;
    if (J->ie4) vrt_ienv[4] = J->ie4; if (J->ie5) vrt_ienv[5] = J->ie5;
    if (J->fill6) vrt_ienv[6] = J->fill6; if (J->fill7) vrt_ienv[7] = J->fill7; if (J->fill8) vrt_ienv[8] = J->fill8;
    perm_c = intMalloc(n); perm_r = intMalloc(n);
    if (J->order < 0) for (i = 0; i < n; ++i) perm_c[i] = i; else get_perm_c(J->order, &A, perm_c);
    StatAlloc(n, J->P, J->ps, J->relax, &G); StatInit(n, J->P, &G);
    if (J->dyn) setenv("SuperLU_DYNAMIC_SNODE_STORE", "1", 1);
    if (J->lwork > 0) work = malloc(J->lwork);
    if (J->usepr && J->npermr == n) for (i = 0; i < n; ++i) perm_r[i] = J->permr[i];
    PG(gstrf_init)(J->P, DOFACT, NOTRANS, NO, J->ps, J->relax, J->u, (J->usepr && !J->refact) ? YES : NO, 0.0, perm_c, perm_r, work, J->lwork, &A, &AC, &o, &G);
    if (J->sym) {      /* symmetric mode as the expert driver sets it up: orderings / column counts of A'+A */
	Destroy_CompCol_Permuted(&AC);      /* etree, colcnt_h, part_super_h were allocated by p?gstrf_init and are filled again */
	o.SymmetricMode = YES; sp_colorder(&A, perm_c, &o, &AC);
    }
    if (J->refact) {   /* first factorization unrecorded, then new values on the same pattern and refactor */
	PG(gstrf)(&o, &AC, perm_r, &L, &U, &G, &info);
	if (info != 0) { fprintf(stderr, "first factorization info %ld\n", (long) info); }
	for (i = 0; i < M.nnz; ++i) { lc v = to_lc(M.val[i]); M.val[i] = from_lc(v * (lc) (1.0L + 0.25L * (long double) ((i * 7) % 5))); }
	for (i = 0; i < J->nzc; ++i) if (J->zc[i] >= 0 && J->zc[i] < n)
	    for (j = M.colptr[J->zc[i]]; j < M.colptr[J->zc[i] + 1]; ++j) M.val[j] = mk_scalar(0.0, 0.0);
	cksA[0] = fnv(M.val, sizeof(SCALAR) * M.nnz);
	Destroy_CompCol_Permuted(&AC);
	StatInit(n, J->P, &G);
	PG(gstrf_init)(J->P, DOFACT, NOTRANS, YES, J->ps, J->relax, J->u, J->refact == 2 ? YES : NO, 0.0, perm_c, perm_r, work, J->lwork, &A, &AC, &o, &G);
    }
    old_pr = intMalloc(n); for (i = 0; i < n; ++i) old_pr[i] = perm_r[i];
    use_old = (o.usepr == YES);
#ifdef _OPENMP
    /* the OpenMP runtime keeps its pool threads after a parallel region: create the pool first, so that the thread count
       before / after the call compares what the library itself leaves behind */
    { int nt = J->P > 16 ? J->P : 16; static volatile int touched;
#pragma omp parallel num_threads(nt)
      { __sync_fetch_and_add(&touched, 1); }
    }
#endif
    thr_before = vrt_thread_count();
    vrt_perturb(J->pert, (unsigned) J->seed);
    if (J->focus[0]) vrt_perturb_focus(J->focus, J->focuspct ? J->focuspct : 50, J->focusus ? J->focusus : 300);
    vrt_log_enable(1);
    PG(gstrf)(&o, &AC, perm_r, &L, &U, &G, &info);
    vrt_log_enable(0); vrt_perturb(0, 0);
    thr_after = vrt_thread_count_until(thr_before);

    f = fopen(J->out, "w"); if (!f) { perror(J->out); return 3; }
    fprintf(f, "{\"e\":\"Meta\",\"id\":\"%s\",\"prec\":\"%s\",\"n\":%ld,\"P\":%d,\"info\":%ld,\"overflow\":%d,\"idle\":%ld,\"lwork\":%ld,\"refact\":%d",
	    J->id, PLS, (long) n, J->P, (long) info, vrt_log_overflowed(), vrt_idle_polls(), J->lwork, J->refact);
    put_list(f, "colcnt", o.colcnt_h, n, 0);
    fprintf(f, "}\n");
    vrt_log_dump(f);

    fprintf(f, "{\"e\":\"Result\",\"p\":0,\"n\":%ld,\"info\":%ld,\"thrBefore\":%d,\"thrAfter\":%d,\"Aunchanged\":%d",
	    (long) n, (long) info, thr_before, thr_after,
	    cksA[0] == fnv(M.val, sizeof(SCALAR) * M.nnz) && cksA[1] == fnv(M.rowind, sizeof(int_t) * M.nnz) && cksA[2] == fnv(M.colptr, sizeof(int_t) * (n + 1)));
    put_list(f, "permr", perm_r, n, 1); put_list(f, "permc", perm_c, n, 1);
    if (info == 0 || (info > 0 && info <= n)) {
	SCPformat *Ls = (SCPformat *) L.Store; NCPformat *Us = (NCPformat *) U.Store;
	if (J->lwork > 0) {
	    char *w0 = (char *) work, *w1 = w0 + J->lwork;
	    int inside = (char *) Ls->nzval >= w0 && (char *) Ls->nzval < w1 && (char *) Ls->rowind >= w0 && (char *) Ls->rowind < w1
		&& (char *) Us->nzval >= w0 && (char *) Us->nzval < w1 && (char *) Us->rowind >= w0 && (char *) Us->rowind < w1;
	    fprintf(f, ",\"inside\":%d", inside);
	}
	fprintf(f, ",\"nsuper\":%ld,\"nnzL\":%ld,\"nnzU\":%ld", (long) Ls->nsuper + 1, (long) Ls->nnz, (long) Us->nnz);
	if (J->full && n <= 80) {
	    int_t maxl = 0, maxu = 0;
	    put_list(f, "supno", Ls->col_to_sup, n, 1);
	    put_list(f, "xsup", Ls->sup_to_colbeg, Ls->nsuper + 1, 1); put_list(f, "xsupend", Ls->sup_to_colend, Ls->nsuper + 1, 1);
	    put_list(f, "lsubbeg", Ls->rowind_colbeg, n, 0); put_list(f, "lsubend", Ls->rowind_colend, n, 0);
	    put_list(f, "lvalbeg", Ls->nzval_colbeg, n, 0); put_list(f, "lvalend", Ls->nzval_colend, n, 0);
	    for (i = 0; i <= Ls->nsuper; ++i) { int_t c = Ls->sup_to_colbeg[i]; if (c >= 0 && c < n && Ls->rowind_colend[c] > maxl) maxl = Ls->rowind_colend[c]; }
	    if (maxl > 100000) maxl = 100000;
	    put_list(f, "lsub", Ls->rowind, maxl, 1);
	    put_list(f, "ubeg", Us->colbeg, n, 0); put_list(f, "uend", Us->colend, n, 0);
	    for (i = 0; i < n; ++i) if (Us->colend[i] > maxu) maxu = Us->colend[i];
	    if (maxu > 100000) maxu = 100000;
	    put_list(f, "usub", Us->rowind, maxu, 1);
	}
    }
    if (info == 0) {
	lc *Ad = dense_from_cs(n, M.colptr, M.rowind, M.val, 0), *Ld = lc_zeros((long) n * n), *Ud = lc_zeros((long) n * n);
	int bad = extract_LU(&L, &U, n, Ld, Ud); long double maxl = 0, rr, sr = 0;
	fprintf(f, ",\"extract\":%d", bad);
	if (!bad) {
	    rr = recon_ratio(n, Ad, perm_r, perm_c, Ld, Ud, BOUND_U, &maxl);
	    fprintf(f, ",\"recon\":%ld,\"maxl\":%ld,\"u1000\":%d,\"usepr\":%d", permille(rr), permille(maxl * (J->u > 0 ? J->u : 0) / (IS_COMPLEX ? 1.41421356237309504880L * (1.0L + 1e-12L) : 1.0L)), (int) (J->u * 1000), use_old);
	    {   /* abstract inputs and outcome of the pivot policy at every step, reconstructed from the returned factors:
		   class of a candidate row: 0 = not a candidate (already pivoted), 1 = candidate but zero or below the threshold,
		   2 = eligible (nonzero and >= u * max, clear of rounding), 3 = within rounding of the threshold (undecided) */
		int_t *ipc = intMalloc(n), *ipr = intMalloc(n), *iold = intMalloc(n); long double tol = 16.0L * UNIT_ROUNDOFF;
		for (j = 0; j < n; ++j) { ipc[perm_c[j]] = j; ipr[perm_r[j]] = j; }
		if (use_old) for (j = 0; j < n; ++j) iold[old_pr[j]] = j;
		fprintf(f, ",\"pivsteps\":[");
		for (j = 0; j < n; ++j) {
		    long double M = 1.0L, uu = (long double) J->u; int cls[2], who[2], k2, choice = 0;
		    for (i = j + 1; i < n; ++i) { long double a = cabsl(Ld[i + (long) j * n]); if (a > M) M = a; }
		    who[0] = ipc[j];                       /* the row with the original index of this column: the diagonal of A */
		    who[1] = use_old ? iold[j] : -1;       /* the row the caller asked for */
		    for (k2 = 0; k2 < 2; ++k2) {
			int r = who[k2]; long double v;
			if (r < 0) { cls[k2] = 0; continue; }
			if (perm_r[r] < j) { cls[k2] = 0; continue; }
			v = perm_r[r] == j ? 1.0L : cabsl(Ld[perm_r[r] + (long) j * n]);    /* |value| / |pivot| */
			if (v == 0) cls[k2] = 1;
			else if (uu == 0) cls[k2] = 2;
#if IS_COMPLEX
			/* the complex codes compare |re|+|im| (as the BLAS i?amax does); from the returned moduli the
			   relation is only decided with a factor-2 margin */
			else if (v >= 2.0L * uu * M * (1.0L + tol)) cls[k2] = 2;
			else if (v < 0.5L * uu * M * (1.0L - tol)) cls[k2] = 1;
			else cls[k2] = 3;
#else
			else if (v >= uu * M * (1.0L + tol)) cls[k2] = 2;
			else if (v < uu * M * (1.0L - tol)) cls[k2] = 1;
			else cls[k2] = (v == uu * M && M == 1.0L) ? 2 : 3;     /* an exact tie with the maximum counts as eligible */
#endif
		    }
		    if (ipr[j] == who[0]) choice |= 1;
		    if (who[1] >= 0 && ipr[j] == who[1]) choice |= 2;
		    fprintf(f, "%s[%d,%d,%d]", j ? "," : "", cls[0], cls[1], choice);
		}
		fprintf(f, "]");
		SUPERLU_FREE(ipc); SUPERLU_FREE(ipr); SUPERLU_FREE(iold);
	    }
	    if (J->nrhs > 0) {   /* solve with the returned factors: B = A * xtrue */
		int_t nrhs = J->nrhs, c; SCALAR *b = scalarMalloc(n * nrhs); lc *Bd = lc_zeros((long) n * nrhs), *Xd = lc_zeros((long) n * nrhs), *W;
		int_t sinfo = 0;
		for (c = 0; c < nrhs; ++c) for (i = 0; i < n; ++i) {
		    lc acc = 0; for (j = 0; j < n; ++j) acc += Ad[i + (long) j * n] * (lc) (1.0L + ((j + c) % 3));
		    b[i + c * n] = from_lc(acc); Bd[i + (long) c * n] = to_lc(b[i + c * n]);
		}
		G(Create_Dense_Matrix)(&B, n, nrhs, b, n, SLU_DN, SLU_DT, SLU_GE);
		G(gstrs)(NOTRANS, &L, &U, perm_r, perm_c, &B, &G, &sinfo);
		for (i = 0; i < (long) n * nrhs; ++i) Xd[i] = to_lc(b[i]);
		W = bound_matrix(n, perm_r, perm_c, Ld, Ud);
		sr = resid_ratio(n, nrhs, Ad, 0, W, Xd, Bd, 3 * n, BOUND_U);
		fprintf(f, ",\"sinfo\":%ld,\"resid\":%ld", (long) sinfo, permille(sr));
		free(W); free(Bd); free(Xd);
	    }
	}
	free(Ad); free(Ld); free(Ud);
    }
    fprintf(f, "}\n");
    fclose(f);
    return 0;
}

int main(int argc, char **argv)
{
    FILE *jf; char *line = 0; size_t cap = 0; job_t *J = (job_t *) malloc(sizeof(job_t));
    if (argc < 2) { fprintf(stderr, "usage: drv_pipe jobs.txt\n"); return 2; }
    jf = fopen(argv[1], "r"); if (!jf) { perror(argv[1]); return 2; }
    while (getline(&line, &cap, jf) > 0) {
	pid_t pid; int st = 0; time_t t0;
	if (line[0] == '#' || line[0] == '\n') continue;
	parse_job(line, J);
	fflush(stdout);
	pid = fork();
	if (pid == 0) {
	    int fd = open("/dev/null", 1); if (fd >= 0) { dup2(fd, 1); }   /* the library prints statistics */
	    _exit(run_job(J));
	}
	t0 = time(0);
	for (;;) {
	    pid_t r = waitpid(pid, &st, WNOHANG);
	    if (r == pid) break;
	    if (time(0) - t0 > J->timeout) { kill(pid, SIGKILL); waitpid(pid, &st, 0); st = -1; break; }
	    usleep(2000);
	}
	if (st == -1) printf("JOB id=%s status=timeout out=%s\n", J->id, J->out);
	else if (WIFSIGNALED(st)) printf("JOB id=%s status=signal:%d out=%s\n", J->id, WTERMSIG(st), J->out);
	else if (WEXITSTATUS(st) != 0) printf("JOB id=%s status=exit:%d out=%s\n", J->id, WEXITSTATUS(st), J->out);
	else printf("JOB id=%s status=ok out=%s\n", J->id, J->out);
    }
    return 0;
}
