/* Trusted numerical oracle of the harness: dense extended-precision
 * (long double complex) reference arithmetic.  It never calls the library.
 * All matrices are column-major n x n unless said otherwise.
 * Ratios are "observed / allowed"; a property clause holds iff ratio <= 1.
 * They are logged as per-mille integers (capped) so that TLC can compare them. */
#ifndef ORACLE_H
#define ORACLE_H
#include "prec.h"
#include <math.h>
#include <stdlib.h>
#include <string.h>

#define RATIO_CAP 2000000000L
static inline long permille(long double r)
{
    if (!(r == r)) return RATIO_CAP;            /* NaN */
    if (r < 0) r = 0;
    r = r * 1000.0L;
    if (r >= (long double) RATIO_CAP) return RATIO_CAP;
    return (long) ceill(r);
}
static inline long double gamma_k(long k, long double u)
{
    long double ku = (long double) k * u;
    if (ku >= 1.0L) return HUGE_VALL;
    return ku / (1.0L - ku);
}
static inline lc *lc_zeros(long n) { lc *p = (lc *) calloc(n ? n : 1, sizeof(lc)); return p; }

/* dense copy of a compressed-column (or compressed-row: then transposed) matrix */
static lc *dense_from_cs(int_t n, const int_t *ptr, const int_t *ind, const SCALAR *val, int rowwise)
{
    lc *A = lc_zeros((long) n * n); int_t j, k;
    for (j = 0; j < n; ++j)
	for (k = ptr[j]; k < ptr[j + 1]; ++k) {
	    if (rowwise) A[j + (long) ind[k] * n] += to_lc(val[k]);
	    else A[ind[k] + (long) j * n] += to_lc(val[k]);
	}
    return A;
}

/* Structural sanity + dense extraction of the supernodal L (unit lower) and
 * columnwise U produced by p?gstrf.  Returns 0 or a code identifying the first
 * malformed item (the harness reports it; TLC re-checks the structure itself). */
static int extract_LU(const SuperMatrix *L, const SuperMatrix *U, int_t n, lc *Ld, lc *Ud)
{
    SCPformat *Ls = (SCPformat *) L->Store; NCPformat *Us = (NCPformat *) U->Store;
    SCALAR *lval = (SCALAR *) Ls->nzval, *uval = (SCALAR *) Us->nzval;
    int_t s, j, k, fsupc, lsupc, istart, nsupr;
    memset(Ld, 0, sizeof(lc) * n * n); memset(Ud, 0, sizeof(lc) * n * n);
    if (Ls->nsuper < 0 || Ls->nsuper >= n) return 1;
    for (s = 0; s <= Ls->nsuper; ++s) {
	fsupc = Ls->sup_to_colbeg[s]; lsupc = Ls->sup_to_colend[s];
	if (fsupc < 0 || lsupc > n || fsupc >= lsupc) return 2;
	istart = Ls->rowind_colbeg[fsupc]; nsupr = Ls->rowind_colend[fsupc] - istart;
	if (nsupr < lsupc - fsupc) return 3;
	for (j = fsupc; j < lsupc; ++j) {
	    int_t vb = Ls->nzval_colbeg[j];
	    if (Ls->nzval_colend[j] - vb != nsupr) return 4;
	    for (k = 0; k < nsupr; ++k) {
		int_t r = Ls->rowind[istart + k];
		if (r < 0 || r >= n) return 5;
		if (r > j) Ld[r + (long) j * n] += to_lc(lval[vb + k]);
		else Ud[r + (long) j * n] += to_lc(lval[vb + k]);
	    }
	}
    }
    for (j = 0; j < n; ++j) {
	Ld[j + (long) j * n] = 1.0L;
	for (k = Us->colbeg[j]; k < Us->colend[j]; ++k) {
	    int_t r = Us->rowind[k];
	    if (r < 0 || r >= n) return 6;
	    Ud[r + (long) j * n] += to_lc(uval[k]);
	}
    }
    return 0;
}

/* |Pr*A*Pc - L*U| <= gamma(n) |L||U| : returns max ratio; also max |l_ij| */
static long double recon_ratio(int_t n, const lc *A, const int_t *perm_r, const int_t *perm_c,
			       const lc *Ld, const lc *Ud, long double u, long double *maxl)
{
    long double worst = 0, g = gamma_k(n, u), ml = 0; int_t i, j, k;
    int_t *ipc = (int_t *) malloc(sizeof(int_t) * (n + 1));
    for (j = 0; j < n; ++j) ipc[perm_c[j]] = j;     /* column jj of A*Pc is column ipc[jj] of A */
    for (j = 0; j < n; ++j)
	for (i = 0; i < n; ++i) {
	    lc acc = 0; long double den = 0;
	    int_t kmax = i < j ? i : j;
	    for (k = 0; k <= kmax; ++k) {
		lc l = Ld[i + (long) k * n], uu = Ud[k + (long) j * n];
		acc += l * uu; den += cabsl(l) * cabsl(uu);
	    }
	    if (i > j) { long double a = cabsl(Ld[i + (long) j * n]); if (a > ml) ml = a; }
	    {   /* (Pr A Pc)(perm_r[r], jj) = A(r, ipc[jj]) */
		long double num; int_t r; lc aij = 0;
		for (r = 0; r < n; ++r) if (perm_r[r] == i) { aij = A[r + (long) ipc[j] * n]; break; }
		num = cabsl(aij - acc);
		if (num > 0) {
		    long double r2 = (den > 0 && g < HUGE_VALL) ? num / (g * den) : HUGE_VALL;
		    if (r2 > worst) worst = r2;
		}
	    }
	}
    free(ipc);
    if (maxl) *maxl = ml;
    return worst;
}

/* |B - op(A) X| <= gamma(3n) * (|op(A)-like bound|) |X| with the bound matrix
 * W = Pr^T |L||U| Pc^T (or its transpose for op = T/C).  X, B are n x nrhs. */
static lc *bound_matrix(int_t n, const int_t *perm_r, const int_t *perm_c, const lc *Ld, const lc *Ud)
{
    lc *W = lc_zeros((long) n * n); int_t i, j, k;
    int_t *ipc = (int_t *) malloc(sizeof(int_t) * (n + 1));
    for (j = 0; j < n; ++j) ipc[perm_c[j]] = j;
    for (j = 0; j < n; ++j)
	for (i = 0; i < n; ++i) {
	    long double den = 0; int_t kmax = i < j ? i : j, r;
	    for (k = 0; k <= kmax; ++k) den += cabsl(Ld[i + (long) k * n]) * cabsl(Ud[k + (long) j * n]);
	    for (r = 0; r < n; ++r) if (perm_r[r] == i) { W[r + (long) ipc[j] * n] = den; break; }
	}
    free(ipc);
    return W;
}
/* op: 0 = A, 1 = A^T, 2 = A^H */
static inline lc op_entry(const lc *A, int_t n, int op, int_t i, int_t j)
{
    if (op == 0) return A[i + (long) j * n];
    if (op == 1) return A[j + (long) i * n];
    return conjl(A[j + (long) i * n]);
}
static long double resid_ratio(int_t n, int_t nrhs, const lc *A, int op, const lc *W,
			       const lc *X, const lc *B, long k_gamma, long double u)
{
    long double worst = 0, g = gamma_k(k_gamma, u); int_t i, j, c;
    for (c = 0; c < nrhs; ++c)
	for (i = 0; i < n; ++i) {
	    lc acc = 0; long double den = 0, num;
	    for (j = 0; j < n; ++j) {
		acc += op_entry(A, n, op, i, j) * X[j + (long) c * n];
		den += cabsl(op_entry(W, n, op ? 1 : 0, i, j)) * cabsl(X[j + (long) c * n]);
	    }
	    num = cabsl(B[i + (long) c * n] - acc);
	    if (num > 0) {
		long double r2 = (den > 0 && g < HUGE_VALL) ? num / (g * den) : HUGE_VALL;
		if (r2 > worst) worst = r2;
	    }
	}
    return worst;
}

/* ---- reference LU with partial pivoting in long double complex (for exact
 * solutions, inverses, condition numbers).  Returns 0 if a zero pivot is met. */
static int ref_lu(int_t n, lc *M, int_t *piv)
{
    int_t i, j, k;
    for (k = 0; k < n; ++k) {
	int_t p = k; long double best = cabsl(M[k + (long) k * n]);
	for (i = k + 1; i < n; ++i) { long double a = cabsl(M[i + (long) k * n]); if (a > best) { best = a; p = i; } }
	piv[k] = p;
	if (best == 0) return 0;
	if (p != k) for (j = 0; j < n; ++j) { lc t = M[k + (long) j * n]; M[k + (long) j * n] = M[p + (long) j * n]; M[p + (long) j * n] = t; }
	for (i = k + 1; i < n; ++i) {
	    lc f = M[i + (long) k * n] / M[k + (long) k * n];
	    M[i + (long) k * n] = f;
	    if (f != 0) for (j = k + 1; j < n; ++j) M[i + (long) j * n] -= f * M[k + (long) j * n];
	}
    }
    return 1;
}
static void ref_solve(int_t n, const lc *LU, const int_t *piv, lc *b)
{
    int_t i, k;
    /* ref_lu swaps whole rows (LAPACK style): apply all interchanges first, then substitute */
    for (k = 0; k < n; ++k) if (piv[k] != k) { lc t = b[k]; b[k] = b[piv[k]]; b[piv[k]] = t; }
    for (k = 0; k < n; ++k) for (i = k + 1; i < n; ++i) b[i] -= LU[i + (long) k * n] * b[k];
    for (k = n - 1; k >= 0; --k) { b[k] /= LU[k + (long) k * n];
	for (i = 0; i < k; ++i) b[i] -= LU[i + (long) k * n] * b[k]; }
}
/* dense op(A) as a fresh matrix */
static lc *dense_op(int_t n, const lc *A, int op)
{
    lc *M = lc_zeros((long) n * n); int_t i, j;
    for (j = 0; j < n; ++j) for (i = 0; i < n; ++i) M[i + (long) j * n] = op_entry(A, n, op, i, j);
    return M;
}
/* inverse (returns NULL if singular) */
static lc *ref_inverse(int_t n, const lc *A)
{
    lc *M = lc_zeros((long) n * n), *Inv = lc_zeros((long) n * n); int_t *piv = (int_t *) malloc(sizeof(int_t) * (n + 1)), j;
    memcpy(M, A, sizeof(lc) * n * n);
    if (!ref_lu(n, M, piv)) { free(M); free(Inv); free(piv); return 0; }
    for (j = 0; j < n; ++j) { Inv[j + (long) j * n] = 1.0L; ref_solve(n, M, piv, Inv + (long) j * n); }
    free(M); free(piv);
    return Inv;
}
static long double norm1(int_t n, const lc *A)
{ long double w = 0; int_t i, j; for (j = 0; j < n; ++j) { long double s = 0; for (i = 0; i < n; ++i) s += cabsl(A[i + (long) j * n]); if (s > w) w = s; } return w; }
static long double norminf(int_t n, const lc *A)
{ long double w = 0; int_t i, j; for (i = 0; i < n; ++i) { long double s = 0; for (j = 0; j < n; ++j) s += cabsl(A[i + (long) j * n]); if (s > w) w = s; } return w; }

/* FNV-1a checksum for "bit-for-bit unchanged" */
static unsigned long fnv(const void *p, size_t n)
{
    const unsigned char *b = (const unsigned char *) p; unsigned long h = 1469598103934665603ul; size_t i;
    for (i = 0; i < n; ++i) { h ^= b[i]; h *= 1099511628211ul; }
    return h;
}
#endif
