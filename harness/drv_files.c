/* drv_files: feed a matrix file (stdin) to one of the real readers and print what it returned.
 * usage: drv_files hb|rb|mt out.json < file      (stdout is used by the readers' chatter)
 * values are printed as integers scaled by 1024 (the test data are multiples of 1/8). */
#include "prec.h"
#include "verif_rt.h"
#include <unistd.h>
extern void G(readrb)(int_t *, int_t *, int_t *, SCALAR **, int_t **, int_t **);
int main(int argc, char **argv)
{
    int_t m = -1, n = -1, nnz = -1, *rowind = 0, *colptr = 0, i; SCALAR *val = 0; FILE *out;
    if (argc < 3 || !(out = fopen(argv[2], "w"))) return 2;
    if (!strcmp(argv[1], "hb")) { G(readhb)(&m, &n, &nnz, &val, &rowind, &colptr); }
    else if (!strcmp(argv[1], "rb")) { G(readrb)(&m, &n, &nnz, &val, &rowind, &colptr); }
    else { G(readmt)(&m, &n, &nnz, &val, &rowind, &colptr); }
    fprintf(out, "{\"nrow\":%ld,\"ncol\":%ld,\"nnz\":%ld,\"colptr\":[", (long) m, (long) n, (long) nnz);
    for (i = 0; i <= n && n >= 0 && n < 100000; ++i) fprintf(out, "%s%ld", i ? "," : "", (long) colptr[i]);
    fprintf(out, "],\"rowind\":[");
    for (i = 0; i < nnz && nnz < 1000000; ++i) fprintf(out, "%s%ld", i ? "," : "", (long) rowind[i]);
    fprintf(out, "],\"vals\":[");
    for (i = 0; i < nnz && nnz < 1000000; ++i) { lc z = to_lc(val[i]); long double re = creall(z) * 1024.0L, im = cimagl(z) * 1024.0L;
	fprintf(out, "%s[%ld,%ld,%d]", i ? "," : "", lrintl(re), lrintl(im), (re == rintl(re) && im == rintl(im)) ? 1 : 0); }
    fprintf(out, "]}\n");
    fclose(out);
    return 0;
}
