#!/usr/bin/env python3
"""keep a confirmed seeded change: keep_seed.py <worktree> <name> <property> <change> <needs>  (copies seed_out, writes meta.json, removes the worktree)"""
import sys, os, json, shutil, subprocess
wt, name, prop, change, needs = sys.argv[1:6]
dst = os.path.join(os.path.dirname(os.path.dirname(os.path.abspath(__file__))), "seeded", name)
os.makedirs(dst, exist_ok=True)
src = os.path.join(wt, "seed_out")
patch = subprocess.run(["git", "-C", wt, "diff", "--", "SRC"], capture_output=True, text=True).stdout
open(os.path.join(dst, "patch.diff"), "w").write(patch)
if os.path.isdir(os.path.join(src, "demo")):
    shutil.copytree(os.path.join(src, "demo"), os.path.join(dst, "demo"), dirs_exist_ok=True, ignore=shutil.ignore_patterns("*.o", "*.a", "*.out", "demo_bin*", "*.exe"))
for f in os.listdir(os.path.join(dst, "demo")) if os.path.isdir(os.path.join(dst, "demo")) else []:
    fp = os.path.join(dst, "demo", f)
    if os.path.isfile(fp) and os.path.getsize(fp) > 300000:
        os.remove(fp)      # binaries
if os.path.exists(os.path.join(src, "README.txt")):
    shutil.copy(os.path.join(src, "README.txt"), dst)
json.dump({"breaks_property": prop, "seeded_for": prop, "change": change, "needs_to_manifest": needs,
           "origin": "independent sub-agent given only the property text and a scratch worktree of /repo (round 11)",
           "confirmed": "tools/confirm_seed.sh in the agent's worktree: ctest 48/48 pass with the change, demo/run.sh fails with it and passes without it",
           "how_to_try": "tools/trypatch.sh seeded/%s/patch.diff %s quick" % (name, prop)}, open(os.path.join(dst, "meta.json"), "w"), indent=1)
subprocess.run(["git", "-C", "/repo", "worktree", "remove", "--force", wt])
print("kept", dst, os.listdir(dst))
