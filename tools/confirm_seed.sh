#!/bin/bash
# usage: confirm_seed.sh <worktree> : run the agent's demo with and without its change, and the ctest suite with it
wt=$1
cd $wt || exit 2
git diff -- SRC > /tmp/cs_patch_$$.diff
echo "--- with change: demo"; (bash seed_out/demo/run.sh > /tmp/cs_with_$$.log 2>&1; echo "exit $?")
if [ -d _build ]; then echo "--- with change: ctest"; (cd _build && cmake --build . > /dev/null 2>&1 && ctest -j8 --timeout 900 2>&1 | grep "tests passed\|tests failed"); fi
git apply -R /tmp/cs_patch_$$.diff
echo "--- without change: demo"; (bash seed_out/demo/run.sh > /tmp/cs_without_$$.log 2>&1; echo "exit $?")
git apply /tmp/cs_patch_$$.diff
git diff --stat -- SRC | tail -1
