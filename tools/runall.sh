#!/bin/bash
# run every registered quick (or thorough) check on the current tree, two at a time; summary in .run/runall.<tier>.log
tier=${1:-quick}; shift
ids=${@:-C01 C02 C03 C04 C05 C06 C07 C08 C09 C10 C11 C12 C13 C14 C15 C16 C17 C18 C19 C20}
cd /verif; mkdir -p .run
: > .run/runall.$tier.log
printf '%s\n' $ids | xargs -P ${PAR:-2} -I{} sh -c "timeout ${TMO:-3000} bin/check {} $tier > .run/all_{}.$tier.log 2>&1; echo {} rc=\$? \$(grep -c '^VIOLATION' .run/all_{}.$tier.log) violations \$(grep -c '^KNOWN-FINDING' .run/all_{}.$tier.log) known >> .run/runall.$tier.log"
sort .run/runall.$tier.log
