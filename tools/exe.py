#!/usr/bin/env python3
"""print the path of an up-to-date harness executable: exe.py pipe|api [prec] [variant]"""
import sys, os
sys.path.insert(0, os.path.join(os.path.dirname(os.path.abspath(__file__)), "..", "lib"))
import build
kind = sys.argv[1]; prec = sys.argv[2] if len(sys.argv) > 2 else "d"; variant = sys.argv[3] if len(sys.argv) > 3 else "verif"
P = {"s": 1, "d": 2, "c": 3, "z": 4}[prec]
if kind == "pipe":
    print(build.harness("drv_pipe_" + prec, ["drv_pipe.c", "verif_rt.c"], variant=variant, defines=["PREC=%d" % P], wrap=["pthread_mutex_unlock"]))
else:
    print(build.harness("drv_api_" + prec, ["drv_api.c", "verif_rt.c", "verif_wrap_lacon.c"], variant=variant, defines=["PREC=%d" % P], wrap=["xerbla_", "malloc", "free", "calloc", "pthread_mutex_unlock", "slacon_", "dlacon_", "clacon_", "zlacon_", "sp_strsv", "sp_dtrsv", "sp_ctrsv", "sp_ztrsv", "sgscon", "dgscon", "cgscon", "zgscon"]))
