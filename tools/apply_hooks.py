#!/usr/bin/env python3
"""Insert the SLU_MT_VERIF observation points into /repo/SRC (add-only).

Kept for documentation / reproducibility: the result is committed in /repo
as separate small commits.  Every insertion is anchored on a unique piece of
existing text; the script refuses to run if an anchor is missing or
ambiguous, and never rewrites or deletes an existing line.
"""
import sys, os, re

SRC = sys.argv[1] if len(sys.argv) > 1 else "/repo/SRC"
INC = '#include "slu_mt_verif.h"\n'


def ins(path, anchor, text, where="before", include_after=None, count=1):
    s = open(path).read()
    if text.strip() and text in s:
        return  # already applied
    n = s.count(anchor)
    if n != count:
        raise SystemExit(f"{path}: anchor occurs {n} times (want {count}): {anchor!r}")
    if where == "before":
        s = s.replace(anchor, text + anchor)
    else:
        s = s.replace(anchor, anchor + text)
    open(path, "w").write(s)


def include(path, after):
    s = open(path).read()
    if INC in s:
        return
    if s.count(after) != 1:
        raise SystemExit(f"{path}: include anchor {after!r} x{s.count(after)}")
    s = s.replace(after, after + INC)
    open(path, "w").write(s)


def prec(p):
    defs = {"s": "slu_mt_sdefs.h", "d": "slu_mt_ddefs.h", "c": "slu_mt_cdefs.h", "z": "slu_mt_zdefs.h"}[p]
    inc_after = f'#include "{defs}"\n'
    g = f"p{p}gstrf"
    # ---------------- worker thread
    f = f"{SRC}/{g}_thread.c"
    include(f, inc_after)
    ins(f, "    singular   = 0;\n    m          = A->nrow;\n",
        "    SLU_VERIF_SET_SELF(pnum);\n")
    ins(f, "    while ( pxgstrf_shared->tasks_remain > 0 ) {\n",
        "        SLU_VERIF_EV(\"Loop\", pnum, jcol);\n", "after")
    ins(f, "\t\t/* Release the whole relaxed supernode */\n",
        "\t\tSLU_VERIF_EV(\"SnRelease\", pnum, jcol, w, *info);\n")
    ins(f, "\t\t/* Symbolic factor on a panel of columns */\n",
        "\t\tSLU_VERIF_EV(\"DfsBegin\", pnum, jcol, w);\n", "after")
    ins(f, "\t\t     marker, spa_marker, parent, xplore, dense, Glu);\n",
        "\t\tSLU_VERIF_EVL(\"DfsEnd\", pnum, segrep, nseg1, jcol);\n", "after")
    ins(f, "\t\t    /* copy the U-segments to ucol[*] */\n",
        "\t\t    SLU_VERIF_EV(\"Pivot\", pnum, jj, pivrow, *info);\n")
    ins(f, "                       ancestor column can prune the same supernodes */\n",
        "\t\t    SLU_VERIF_EV(\"Release\", pnum, jj);\n", "after")
    ins(f, "\t\t    pxgstrf_resetrep_col (nseg, segrep, &repfnz[k]);\n",
        "\t\t    SLU_VERIF_EV(\"ColDone\", pnum, jj);\n", "after")
    ins(f, "\t    STATE( jcol ) = DONE; /* Release panel jcol. */\n",
        "\t    SLU_VERIF_EV(\"PanelDone\", pnum, jcol);\n")
    ins(f, "    *info = singular;\n\n    /* Free work space and compress storage */\n",
        "    SLU_VERIF_EV(\"Exit\", pnum, singular);\n")
    # ---------------- relaxed supernode
    f = f"{SRC}/{g}_factor_snode.c"
    include(f, inc_after)
    ins(f, "\tnextlu += nsupr;\n",
        "\tSLU_VERIF_EV(\"SnPivot\", pnum, icol, pivrow, *info);\n")
    ins(f, "    /* Store the row subscripts of kcol-1 for pruned graph */\n",
        "    SLU_VERIF_EV(\"SnFact\", pnum, jcol, kcol - jcol, singular);\n")
    # ---------------- column dfs: join an existing supernode
    f = f"{SRC}/{g}_column_dfs.c"
    include(f, inc_after)
    ins(f, "    } else { /* Supernode of size > 1: overwrite column jcol-1 */\n",
        "\tSLU_VERIF_EV(\"Join\", pnum, jcol, fsupc, nsuper);\n", "after")
    # ---------------- pipeline wait loop and busy updates
    f = f"{SRC}/{g}_panel_bmod.c"
    include(f, inc_after)
    ins(f, "\tksupno = supno[kcol];\n\tfsupc = kcol;\n",
        "\tSLU_VERIF_EV(\"Wait\", pnum, kcol, ksupno);\n", "after")
    ins(f, "\t    krep = SUPER_REP( ksupno );\n\t    kcol = etree[kcol];\n",
        "\t    SLU_VERIF_EV(\"Climb\", pnum, krep, kcol);\n", "after")
    ins(f, "\t    dadsupno = supno[kcol];\n",
        "\t    SLU_VERIF_EV(\"ClimbWait\", pnum, kcol, dadsupno);\n", "after")
    ins(f, "\t/* Append the new segment into segrep[*]. After column_bmod(),\n",
        "\tSLU_VERIF_EV(\"BusyUpdBegin\", pnum, fsupc, krep);\n")
    ins(f, "\t/* Go to the parent of \"krep\" */\n",
        "\tSLU_VERIF_EV(\"BusyUpdEnd\", pnum, fsupc, krep);\n")
    # ---------------- master
    f = f"{SRC}/{g}.c"
    include(f, inc_after)
    ins(f, "    if ( *info ) return;\n\n    /* Start timing factorization. */\n",
        "    SLU_VERIF_EVL(\"Etree\", -1, superlumt_options->etree, A->ncol, A->ncol);\n"
        "    SLU_VERIF_EVL(\"SuperBnd\", -1, superlumt_options->part_super_h, A->ncol, A->ncol);\n"
        "    SLU_VERIF_EVL(\"Create\", -1, pxgstrf_shared.Glu->map_in_sup, A->ncol + 1,\n"
        "\t\t  nprocs, A->ncol, pxgstrf_shared.Glu->nzlumax,\n"
        "\t\t  pxgstrf_shared.Glu->dynamic_snode_bound,\n"
        "\t\t  pxgstrf_shared.Glu->nextlu, superlumt_options->panel_size,\n"
        "\t\t  superlumt_options->relax, sp_ienv(3));\n", "after")
    ins(f, "    wtime = SuperLU_timer_() - wtime;\n    usrtime = usertimer_() - usrtime;\n",
        "    SLU_VERIF_EV(\"JoinAll\", -1, nprocs);\n")
    f = f"{SRC}/{g}_thread_finalize.c"
    include(f, inc_after)
    ins(f, "    *pxgstrf_shared->info = iinfo;\n",
        "    SLU_VERIF_EV(\"Wrap\", -1, nnzL, nnzU, Glu->supno[n], iinfo);\n", "after")


def shared():
    inc_after = '#include "slu_mt_ddefs.h"\n'
    f = f"{SRC}/pxgstrf_scheduler.c"
    include(f, inc_after)
    ins(f, "\t    --pxgstrf_shared->tasks_remain;\n",
        "\t    SLU_VERIF_EV(\"@Take\", pnum, jcol);\n")
    ins(f, "    *cur_pan = jcol;\n",
        "    SLU_VERIF_EV(\"Sched\", pnum, *cur_pan, jcol, (jcol != EMPTY ? *bcol : EMPTY),\n"
        "\t\t pxgstrf_shared->tasks_remain, taskq->head, taskq->tail,\n"
        "\t\t taskq->count);\n")
    f = f"{SRC}/pxgstrf_synch.c"
    include(f, inc_after)
    ins(f, "      i = ++(*data);\n",
        "      SLU_VERIF_EV(\"NewNsuper\", pnum, i);\n", "after")
    f = f"{SRC}/pmemory.c"
    include(f, inc_after)
    ins(f, "\tGlu->map_in_sup[fsupc] += num;\n",
        "\tSLU_VERIF_EV(\"LusupAlloc\", pnum, jcol, num, *prev_next, fsupc);\n", "after")
    ins(f, "\t    *prev_next = nextu;\n\t    Glu->nextu = new_next;\n",
        "\t    SLU_VERIF_EV(\"UAlloc\", pnum, jcol, num, nextu, Glu->nzumax);\n", "after")
    ins(f, "\t  *prev_next = nextl;\n\t  Glu->nextl = new_next;\n",
        "\t  SLU_VERIF_EV(\"LsubAlloc\", pnum, jcol, num, nextl, Glu->nzlmax);\n", "after")
    ins(f, "\tGlu->nextlu = new_next;\n",
        "\tSLU_VERIF_EV(\"DynMap\", pnum, jcol, num, nextlu, Glu->nzlumax);\n", "after")
    f = f"{SRC}/pxgstrf_pruneL.c"
    include(f, inc_after)
    ins(f, "\t     \t/* Do a quicksort-type partition */\n",
        "\t\tSLU_VERIF_EV(\"PruneBegin\", SLU_VERIF_SELF(), jcol, irep);\n")
    ins(f, "\t        xprune[irep] = kmin;\t/* Pruning */\n\t\tispruned[irep] = 1;\n",
        "\t\tSLU_VERIF_EV(\"PruneEnd\", SLU_VERIF_SELF(), jcol, irep);\n", "after")
    f = f"{SRC}/pxgstrf_mark_busy_descends.c"
    include(f, inc_after)
    ins(f, "    bcol_reg = *bcol;\n",
        "    if ( bcol_reg >= jcol ) SLU_VERIF_EV(\"Mark\", pnum, jcol, *bcol);\n", "after")
    ins(f, "\t*bcol = fsupc;\n",
        "#ifdef SLU_MT_VERIF\n"
        "\t{   /* report the set of columns marked busy for this panel */\n"
        "\t    int_t vn = 0, vk, *vl = (int_t *) malloc((jcol + 1) * sizeof(int_t));\n"
        "\t    for (vk = 0; vk < jcol; ++vk) if ( lbusy[vk] == jcol ) vl[vn++] = vk;\n"
        "\t    SLU_VERIF_EVL(\"Mark\", pnum, vl, vn, jcol, fsupc);\n"
        "\t    free(vl);\n"
        "\t}\n"
        "#endif\n", "after")
    f = f"{SRC}/util.c"
    include(f, inc_after)
    ins(f, "\tjstrt = xlsub[fsupc];\n\txlsub[fsupc] = nextl;\n",
        "\tSLU_VERIF_EV(\"FixupMove\", -1, i, jstrt, nextl, xlsub_end[fsupc] - jstrt);\n", "after")


for p in "sdcz":
    prec(p)
shared()
print("hooks applied")

# ---- the caller's workspace as a two-ended stack (repo commit 40939d7): StkInit, StkUsers, StkAlloc, StkFree, StkAdjust in
# p?memory.c, each inside the critical section of the stack lock, after the change, with (size, used, top1, top2).
# The ten insertions per precision file are listed in the commit itself (`git -C /repo show 40939d7`); they were applied with the
# same anchored-replacement discipline (unique anchor, add-only) from an inline script during the build session.
