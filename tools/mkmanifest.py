#!/usr/bin/env python3
"""Regenerates MANIFEST.json from the table below (kept in one place so it always validates)."""
import json, os, subprocess
HERE = os.path.dirname(os.path.dirname(os.path.abspath(__file__)))
props = [json.loads(l) for l in open(os.path.join(HERE, "properties.jsonl"))]
ids = [p["id"] for p in props]

CLAIMED = {
 "C03": dict(cat="model_checking", technique="TLA+ model checking (TLC, SluPipe, SluSched) + trace validation of recorded executions (SluPipeTrace; pthread, OpenMP and 64-bit-index builds; the repository's own test driver as trace generator) + replay of every TLC transition of SluSched into the real scheduler / mark_busy_descends",
             text="SluPipe models scheduler, pipeline wait protocol, supernode numbering, pruning and fixupL at the grain of the code's critical sections; TLC checks all interleavings exhaustively for every postordered forest up to the stated bound; real multithreaded factorizations are recorded through hooks and validated event by event against the same specification with every invariant evaluated at every step; in the other direction TLC prints one test per transition of the scheduling layer's state graph (SluSched: loop test, scheduler section, mark busy, finish, for every interleaving on a forest) and the harness executes each on the real ParallelInit / pxgstrf_scheduler / pxgstrf_mark_busy_descends, comparing outputs and the complete scheduler state.",
             note="Trusted: TLC, sequential-consistency interleaving semantics, the hook logging discipline (DESIGN 4.2), the harness runtime. Exhaustive only within small constants (N<=5/6 columns, P<=3).", ref="3.2, 4.3, 5 C03"),
 "C04": dict(cat="model_checking", technique="TLA+ model checking with liveness (TLC, SluPipe FairSpec/Termination; SluSched) + trace validation of watchdogged executions + replay of every TLC transition of SluSched into the real scheduler",
             text="TLC checks Termination under weak fairness and the counting invariants (TasksExact, OncePerPanel, QueueBound, NeverRoot, WaitOnBusy, Finished) for every interleaving on all small forests, also with zero pivots and with more workers than panels; real factorizations with 1..64 threads, singular inputs and injected delays run under a watchdog and their traces (one Pivot per column, an Exit per worker before JoinAll, thread count before/after) are validated against the same specification.",
             note="Liveness under weak fairness of each thread (an OS scheduler that eventually runs every thread); sequentially consistent interleavings; bounded forests (N<=4/5, P<=3).", ref="3.2, 5 C04"),
 "C09": dict(cat="model_checking", technique="TLA+ specification as oracle (SluLU!WellFormedLU evaluated by TLC on the projected output) + SluPipe model checking of numbering/storage/fixupL",
             text="WellFormedLU is a declarative TLA+ definition of a well-formed (L,U,perm_r,perm_c); TLC evaluates it on the structure returned by every recorded real factorization (first-time, refactored, user workspace) and checks equality with the supernode maps of the model state reached by the validated trace; the model itself establishes CompactionSafe/TopoNumbering/SupernodeMaps for every interleaving of small forests.",
             note="Structures logged in full only for n<=80; trusted: TLC, the projection code of the harness (drv_pipe.c put_list).", ref="3.2, 4.5, 5 C09"),
 "C01": dict(cat="exploration", technique="TLA+ history enumeration (SluApi) + trace validation of executed histories (SluApiTrace, SluPipeTrace); residual clause via harness oracle",
             text="TLC enumerates the legal histories of simple-driver calls; each sampled history is executed on the real library in four precisions with NC/NR storage, nrhs 0..3, padded ldb, all orderings, 1..16 threads and schedule perturbation; TLC then validates every call record (info, A unchanged, padding, residual ratio <= 1) and every recorded factorization against the pipeline specification.",
             note="The backward-stability inequality itself is evaluated by the long-double oracle of the harness (TLC cannot do IEEE arithmetic) and asserted by the trace specification; sampled inputs, no exhaustiveness claim.", ref="3.6, 4.6, 5 C01"),
 "C07": dict(cat="exploration", technique="TLA+ history enumeration (SluApi) + trace validation of executed expert-driver calls (SluApiTrace); accuracy clauses via harness oracle",
             text="All (fact, trans, storage, memory mode) combinations are enumerated by TLC as histories; badly scaled matrices force every equed outcome; the trace specification demands info in {0,n+1}, A and B changed exactly as equed/R/C say, and a componentwise backward error of X for the ORIGINAL system of order (n+1)eps.",
             note="Accuracy asserted only for cond < 1e8; oracle = long double dense arithmetic. Known finding F16 (complex CONJ) is reported as KNOWN-FINDING.", ref="3.6, 5 C07"),
 "C08": dict(cat="model_checking", technique="TLA+ model checking of the call-history object (SluApi, exhaustive to depth 4/5) + trace validation of executed histories",
             text="TLC enumerates every legal history over {first factor, refactor (usepr y/n, new values), FACTORED solve(trans), destroy} up to the depth bound; sampled histories run on the real library with different values per version; the trace specification requires every call to solve the current values and FACTORED calls to leave A, L, U and both permutations bit-identical.",
             note="Exhaustive enumeration of histories to the stated depth, execution of a seed-chosen sample; oracle-evaluated backward error.", ref="3.6, 5 C08"),
 "C02": dict(cat="model_checking", technique="TLA+ specification as oracle (SluPivot!StepOK, SluLU) evaluated by TLC on every recorded factorization + SluPipe trace validation; reconstruction bound via harness oracle",
             text="The pivot policy is a TLA+ definition over the abstract inputs of a step (user row / original diagonal / maximum, each not-a-candidate, ineligible, eligible or undecided); the harness reconstructs these inputs and the row actually taken for every column from the returned factors and TLC checks every step, the multiplier bound and the reconstruction ratio, over thresholds 0..1, explicit zero diagonals, small-integer ties, all panel/relax/maxsuper settings and forced pivot orders on n<=4 patterns.",
             note="Threshold relations within 16 ulp are 'undecided' and accepted; the reconstruction inequality is evaluated in long double by the harness oracle.", ref="3.4, 5 C02"),
 "C06": dict(cat="model_checking", technique="TLA+ model checking (SluPipe with zero pivots: info = min over all zero-pivot columns for every interleaving) + trace validation of singular runs + SluApi history validation",
             text="TLC checks on all small forests that the reported info is the minimum zero-pivot column whatever the schedule; recorded factorizations with 1..3 exactly-zero columns in different subtrees are validated event by event (each worker's Exit carries its own minimum, Wrap the global one) and the expected position in A*Pc order is compared; both drivers are driven through singular histories (B / X untouched, outputs inspectable and destroyable).",
             note="Explicit zeros only (structurally nonsingular patterns); structurally singular inputs are the recorded finding F3.", ref="3.2, 3.6, 5 C06"),
 "C05": dict(cat="model_checking", technique="TLA+ specification as oracle (SluOrder!BoundOK: symbolic elimination over all pivot sequences) + SluPipeTrace!SlotBound on recorded ASan/UBSan runs",
             text="TLC evaluates on the records of the real sp_colorder that the predicted column counts dominate |L(:,j)| for every pivot sequence (exhaustive on small patterns); every recorded factorization, built with AddressSanitizer and UBSan, is validated against SluPipeTrace whose SlotBound invariant checks each unchecked bump of the lusup slot pointer against the reserved slot; too-small U/L-subscript estimates must end in the library's diagnostic.",
             note="Bound claim for structurally nonsingular patterns (F3 otherwise); ASan cannot see overflow inside one malloc block -- SlotBound covers that; F14 (dynamic mode) is a recorded finding.", ref="3.3, 3.5, 5 C05"),
 "C10": dict(cat="model_checking", technique="TLA+ specification as oracle (SluOrder!OrderOK evaluated by TLC on every record of the real get_perm_c/sp_colorder), exhaustive over small patterns",
             text="Declarative TLA+ definitions of permutation, A*Pc view, column elimination tree (symbolic elimination of the column intersection graph), postorder and partition are evaluated by TLC on the output of the real routines for every 0/1 pattern with n<=3 (n<=4 thorough), all five ordering options, both modes, plus random patterns to n=16.",
             note="Exhaustive only for n<=3/4; set-based TLA+ definitions limit checked sizes to n<=16.", ref="3.1, 4.5, 5 C10"),
 "C16": dict(cat="model_checking", technique="TLA+ specification as oracle (SluOrder symmetric variant: etree of Pc(A+A')Pc', Cholesky-count bound under diagonal pivoting) + SluApi/SluPipe trace validation of symmetric-mode expert-driver calls (ASan build)",
             text="TLC evaluates on the real sp_colorder output in symmetric mode, for every full-diagonal pattern up to n=3/4 and random ones, that the etree/postorder are right and the Cholesky counts dominate L under diagonal pivoting; expert-driver histories with SymmetricMode=YES, u=0, ordering 2 on diagonally dominant matrices must show perm_r = perm_c, the accuracy clauses of C07, and SlotBound on every recorded factorization.",
             note="Diagonal dominance generated by the harness; accuracy via the long-double oracle; F10 was found here and repaired (fix commit).", ref="3.3, 5 C16"),
 "C15": dict(cat="model_checking", technique="TLA+ model (SluArgs: documented argument tables, first offender) with complete TLC enumeration of single and pairwise violations + record validation by TLC",
             text="SluArgs transcribes the documented '-i = i-th argument' tables of eight routines; TLC enumerates every single violated precondition and every pair, the harness executes each on the real library in four precisions with the error handler replaced, and TLC checks for each record: info = -position of the first offender, handler called exactly once with that position, every argument-reachable object bit-identical, no allocation retained.",
             note="Complete for the conditions listed in SluArgs!Pos (one representative way of violating each documented precondition).", ref="3.6, 5 C15"),
 "C17": dict(cat="model_checking", technique="TLA+ model checking of the call-history object with a heap baseline (SluApi) + trace validation of histories executed twice with allocation tracking",
             text="All library allocations go through the USER_MALLOC/USER_FREE seam (raw malloc/free wrapped as well); TLC enumerates legal histories ending with destroy over the full alphabet (both drivers, refactor, FACTORED, singular, query, user workspace); each sampled history is executed twice in one process and SluApiTrace requires: query/FACTORED/refactor retain nothing, destroy returns the live-block count to the baseline, thread count unchanged, no growth on repetition.",
             note="Block counts, not bytes; file handles are never opened by these calls.", ref="3.5, 3.6, 5 C17"),
 "C18": dict(cat="model_checking", technique="TLA+ history enumeration (SluApi: prefix;probe) + differential replay: probe after the prefix vs probe alone in a fresh process, bitwise comparison of everything returned",
             text="TLC enumerates (prefix, probe) histories over the alphabet of C08/C14/C06; the harness runs prefix+probe in one process and the probe alone in a fresh one (one thread, built-in kernels, user workspaces sized from the library's own estimate) and compares a hash of X, info, L/U values and subscripts, permutations, rcond, pivot growth, ferr, berr.",
             note="Same precision for prefix and probe (one precision per harness executable).", ref="3.6, 5 C18"),
 "C14": dict(cat="fault_enumeration", technique="fault enumeration derived from the TLA+ models (SluMem two-ended stack protocol checked by TLC; SluApi query/user-workspace obligations) executed against the real library under ASan/UBSan + trace validation of every critical section of the caller-workspace stack against SluStack (Stk* hooks)",
             text="SluMem (TLC, all interleavings of worker start/finish) establishes the stack invariants and rejects the pre-repair release policy; every allocation request of five kinds of driver call is made to fail together with all later ones (every k in thorough), every workspace size class from 10 % to 200 % of the library's own estimate is tried with 1..4 threads, user mode is compared bitwise with internal mode, and query / user-workspace histories are validated against SluApiTrace (guard zones around the caller's buffer, factors inside it); every Stk* event (set-up, reuse, allocation from either end incl. the failing ones, release, registration of threads for the tail, alignment padding, compaction) of every such run is a step of SluStack with StackOK on every state.",
             note="Failure simulated at the allocation seam; diagnostic exits (USER_ABORT path or the library's exit(1) after its message) are accepted outcomes; F5 (workspace <= 20 % of the estimate) was located by the SluStack validation and is repaired (d9d5c56).", ref="3.5, 5 C14"),
 "C11": dict(cat="model_checking", technique="TLA+ model on an exact sub-domain (SluEquil: entries 0 or 2^e, integer arithmetic on exponents) with exhaustive comparison by TLC against the real ?gsequ/?laqgs + SluApi driver rule on executed histories",
             text="On matrices with entries 0 or +-2^e every output of ?gsequ and ?laqgs (R, C, rowcnd, colcnd, amax, info, equed, the scaled matrix) is an integer function of the exponents, including clipping, thresholds, underflow and zero rows/columns; TLC compares the real routines exactly with that model on every 1x1 and 2x2 matrix over exponent sets spanning the range, random 3x3/4x4, four precisions; the expert-driver rule for A and B is asserted on every driver record.",
             note="Exact only on the power-of-two domain; overflow of c_j*r_i is excluded from the claim; general matrices via the driver-level clauses (few-ulp relation).", ref="3.7, 5 C11"),
 "C19": dict(cat="exploration", technique="TLA+ dense definitions (SluKernels) evaluated by TLC on records of the real kernels over an exact small-integer domain (bit-identical comparison)",
             text="On small (Gaussian) integer data the sparse mat-vec, mat-mat, triangular solves with factored L/U, norms, row-to-column conversion and copy must equal their dense definitions exactly; TLC recomputes the definition for every record produced by the real routines in four precisions.",
             note="Exact domain only (entries -2..2, unit increments); rounding-bound agreement on general values is observed indirectly through C01/C02/C07. Known findings: F11 (non-unit increments), F15 (Frobenius norm), F18 (complex conjugate transpose).", ref="3.7, 5 C19"),
 "C12": dict(cat="exploration", technique="TLA+ model checking of the estimator state machine (SluLacon, TLC incl. liveness) + trace validation of the real ?gscon/?lacon/sp_?trsv protocol (--wrap) + SluApi validation of expert-driver records; sandwich via harness oracle",
             text="SluLacon models ?lacon's reverse-communication protocol (termination within 12 calls, kase sequence, no static read before written); every real ?gscon call is recorded (kase in/out of each ?lacon call, triangular solves in between) and must be accepted by the model; expert-driver records must show info = n+1 iff rcond < eps, the rcond sandwich in the right norm for the requested system (after equilibration), and the pivot growth recomputed from the returned factors.",
             note="The sandwich and pivot-growth inequalities are oracle-evaluated (long double) and asserted for cond < 1e8 with 10 % slack.", ref="3.7, 5 C12"),
 "C13": dict(cat="model_checking", technique="TLA+ model checking of the refinement loop (SluRefine, TLC incl. liveness) + trace validation of every real ?gsrfs call (sp_?gemv / ?gstrs / ?lacon recorded through --wrap) + SluApi validation of expert-driver records; berr/ferr inequalities via harness oracle",
             text="SluRefine models ?gsrfs as the state machine it is (residual with op(A), at most ITMAX corrections solved with op(A), the estimator's kase=1 product with the transposed operator and kase=2 with op(A), the kase sequence a path of SluLacon, counters restarting per column); TLC checks termination and the bounds on the model, and every ?gsrfs call of the executed histories must be a path of it (corrupted copies of real records are rejected: built-in self-test). For every refined solve over all trans/storage/equilibration combinations the returned berr must equal the true componentwise backward error of the returned X for the equilibrated system in the requested transpose sense (to 20(n+1)eps), and 20*ferr must dominate the actual relative error.",
             note="The protocol part is decided by TLC; the two numerical inequalities are oracle-observed (long double) and asserted by TLC on the logged ratios.", ref="0.1, 3.7, 5 C13"),
 "C20": dict(cat="exploration", technique="TLA+ specification as oracle (SluFiles!ReaderOK evaluated by TLC) on files rendered from abstract matrices and read by the real readers",
             text="Abstract matrices are rendered as Harwell-Boeing, Rutherford-Boeing and column-list text with varying integer/real edit descriptors (E, D, F), with and without the right-hand-side card, and read by the real ?readhb/?readrb/?readmt in four precisions; TLC checks that the returned column-compressed arrays represent exactly the entries and values of the abstract matrix.",
             note="The file writer is part of the trusted harness; widths <= 80, explicit-width descriptors only; F12 (no symmetric expansion, no triplet reader) is a recorded finding.", ref="3.7, 5 C20"),
}
NA_REASON = "check not built yet in this session (planned, see DESIGN.md section 5); not claimed"

def main():
    src = subprocess.run(["git", "-C", "/repo", "log", "--format=%H %s"], capture_output=True, text=True).stdout.splitlines()
    hooks = [l.split()[0] for l in src if " verif hooks:" in l]
    m = {
     "version": 1,
     "setup_cmd": "python3 lib/build.py verif",
     "hooks": {"guard": "SLU_MT_VERIF", "enable": "-DSLU_MT_VERIF (lib/build.py compiles /repo/SRC/*.c with it for the verif/asan/tsan variants; events go to the harness callbacks slu_verif_ev)",
               "baseline_off_cmd": "cd /repo/_build && cmake --build . && ctest -j8 --timeout 900",
               "source_commits": hooks, "add_only": True},
     "engines": [{"name": "tlc", "path": "/opt/veriftools/tla/tla2tools.jar", "serves_properties": sorted(CLAIMED), "kind_free_text": "explicit-state model checker for the TLA+ specifications in spec/; also validates recorded traces"}],
     "checks": [], "not_applicable": [],
     "notes": "All checks go through bin/check <id> <tier>; specifications in spec/, harness in harness/, known findings in known_findings.json.",
    }
    for i in ids:
        if i in CLAIMED:
            c = CLAIMED[i]
            m["checks"].append({"property_id": i, "quick_cmd": "bin/check %s quick" % i, "thorough_cmd": "bin/check %s thorough" % i,
                                "evidence_file": "/verif/evidence/%s.json" % i, "replay_cmd_template": "bin/check %s --replay {path}" % i,
                                "engine": "tlc", "technique": c["technique"],
                                "level_claimed": {"category": c["cat"], "text": c["text"], "design_ref": c["ref"]}, "level_note": c["note"]})
        else:
            m["not_applicable"].append({"property_id": i, "reason": NA.get(i, NA_REASON)})
    json.dump(m, open(os.path.join(HERE, "MANIFEST.json"), "w"), indent=1)
    try:
        import jsonschema
        jsonschema.validate(m, json.load(open("/root/.vp/MANIFEST.schema.json")))
        print("MANIFEST.json valid;", len(m["checks"]), "checks,", len(m["not_applicable"]), "not applicable")
    except ImportError:
        print("written (jsonschema not available)")
NA = {}
if __name__ == "__main__":
    main()
