#!/bin/bash
# usage: trypatch.sh <patch.diff> <check id> [tier]   -- apply a seeded change to /repo, run one check, undo
set -u
patch=$1; id=$2; tier=${3:-quick}
cd /repo || exit 2
if ! git diff --quiet; then echo "repo not clean"; exit 2; fi
git apply "$(cd /verif && realpath "$patch")" || { echo "patch does not apply"; exit 2; }
cd /verif && timeout 3000 bin/check "$id" "$tier" > /tmp/trypatch_$id.log 2>&1
rc=$?
git -C /repo checkout -- .; git -C /verif checkout -- evidence
echo "check $id $tier on $(basename $(dirname $patch)): exit $rc"
grep -E "VIOLATION|KNOWN-FINDING|SELFTEST|^C[0-9]+ " /tmp/trypatch_$id.log | cut -c1-400 | head -12
exit $rc
