#!/usr/bin/env python3
"""Run the registered quick checks against every kept seeded change and record who catches what.
usage: seedmatrix.py [seed name ...]   (default: all); writes seeded/RESULTS.json and meta.json updates"""
import sys, os, json, subprocess, re, time
ROOT = os.path.dirname(os.path.dirname(os.path.abspath(__file__)))
SEEDS = os.path.join(ROOT, "seeded")
# which checks to try for a seed of a given property (first = its own)
TRY = {"C01": ["C01"], "C02": ["C02"], "C03": ["C03"], "C04": ["C04", "C06"], "C05": ["C05", "C16"], "C06": ["C06"], "C07": ["C07"], "C08": ["C08"],
       "C09": ["C09"], "C10": ["C10"], "C11": ["C11", "C07"], "C12": ["C12", "C07"], "C13": ["C13", "C07"], "C14": ["C14", "C05"], "C15": ["C15"],
       "C16": ["C16"], "C17": ["C17"], "C18": ["C18"], "C19": ["C19"], "C20": ["C20"]}


def run(seed, check):
    patch = os.path.join(SEEDS, seed, "patch.diff")
    if subprocess.run(["git", "-C", "/repo", "diff", "--quiet"]).returncode != 0:
        raise SystemExit("repo not clean")
    if subprocess.run(["git", "-C", "/repo", "apply", patch]).returncode != 0:
        return {"check": check, "result": "patch does not apply"}
    t0 = time.time()
    try:
        p = subprocess.run([os.path.join(ROOT, "bin", "check"), check, "quick"], cwd=ROOT, capture_output=True, text=True, timeout=3000)
        out, rc = p.stdout, p.returncode
    except subprocess.TimeoutExpired:
        out, rc = "", -1
    finally:
        subprocess.run(["git", "-C", "/repo", "checkout", "--", "."])
        subprocess.run(["git", "-C", ROOT, "checkout", "--", "evidence"])      # evidence of a run against a seeded tree is not evidence
    viol = len(re.findall(r"^VIOLATION", out, re.M))
    return {"check": check, "exit": rc, "violations": viol, "wall_s": round(time.time() - t0, 1),
            "first": (re.search(r"^VIOLATION.*\n\s+(.*)", out, re.M).group(1)[:300] if viol else "")}


def main():
    names = sys.argv[1:] or sorted(d for d in os.listdir(SEEDS) if os.path.isdir(os.path.join(SEEDS, d)))
    resp = os.path.join(SEEDS, "RESULTS.json")
    results = json.load(open(resp)) if os.path.exists(resp) else {}
    for s in names:
        prop = s.split("-")[0]
        mp0 = os.path.join(SEEDS, s, "meta.json")
        if os.path.exists(mp0) and json.load(open(mp0)).get("retired"):
            print(s, "retired (no longer a violation on the current tree)")
            results[s] = [{"check": "-", "result": "retired"}]
            continue
        res = [run(s, c) for c in TRY.get(prop, [prop])]
        results[s] = res
        print(s, [(r["check"], r.get("exit"), r.get("violations")) for r in res])
        mp = os.path.join(SEEDS, s, "meta.json")
        meta = json.load(open(mp)) if os.path.exists(mp) else {}
        meta["checks_run"] = res
        meta["caught_by"] = [r["check"] for r in res if r.get("exit") == 1 and r.get("violations", 0) > 0]
        json.dump(meta, open(mp, "w"), indent=1)
        json.dump(results, open(resp, "w"), indent=1)


if __name__ == "__main__":
    main()
