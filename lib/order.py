"""Running drv_order and validating its records against SluOrder."""
import os, json, subprocess
import build, tlc


def driver():
    return build.harness("drv_order", ["drv_order.c", "verif_rt.c"])


def generate(path, n, mode, count, seed, sym=0):
    try:
        p = subprocess.run([driver(), path, str(n), mode, str(count), str(seed), str(sym)], capture_output=True, text=True, timeout=1800)
    except subprocess.TimeoutExpired:
        return -9, "driver did not finish within 1800 s"
    return p.returncode, p.stderr[-500:]


def struct_rank(n, pat):
    """maximum matching rows<->columns of a list of [row, col] (1-based)"""
    adj = {c: [] for c in range(1, n + 1)}
    for r, c in pat:
        adj[c].append(r)
    match = {}

    def aug(c, seen):
        for r in adj[c]:
            if r in seen:
                continue
            seen.add(r)
            if r not in match or aug(match[r], seen):
                match[r] = c
                return True
        return False
    return sum(1 for c in range(1, n + 1) if aug(c, set()))


def split_by_rank(path):
    """-> (file with structurally nonsingular records, file with singular ones, counts)"""
    ns, sg = path.replace(".ndjson", ".ns.ndjson"), path.replace(".ndjson", ".sg.ndjson")
    a = b = 0
    with open(path) as f, open(ns, "w") as fa, open(sg, "w") as fb:
        for ln in f:
            r = json.loads(ln)
            if r.get("valid") == 1 and struct_rank(r["n"], r["pat"]) == r["n"]:
                fa.write(ln)
                a += 1
            else:
                fb.write(ln)
                b += 1
    return ns, sg, a, b
