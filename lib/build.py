"""Build /repo's library (current working tree) in the variants the checks need.

Every check calls ensure(variant); objects are cached under
/verif/.build/<hash of SRC+CBLAS+flags>/<variant>/ so an unchanged tree is
compiled once and an edited tree is always recompiled.
"""
import fcntl, hashlib, os, subprocess, sys, shutil, glob, time, threading
_LOCK = threading.RLock()
from concurrent.futures import ThreadPoolExecutor

VERIF = os.path.dirname(os.path.dirname(os.path.abspath(__file__)))
REPO = os.environ.get("VERIF_REPO", "/repo")
BUILD = os.path.join(VERIF, ".build")
HARNESS = os.path.join(VERIF, "harness")

SEAMS = ["-include", os.path.join(HARNESS, "verif_seams.h"),
         "-DUSER_MALLOC(size)=slu_verif_malloc(size,__FILE__,__LINE__)",
         "-DUSER_FREE(addr)=slu_verif_free(addr,__FILE__,__LINE__)",
         "-DUSER_ABORT(msg)=slu_verif_abort(msg)"]

VARIANTS = {
    # name: (compiler, flags, use hooks+seams)
    "plain":   ("gcc",   ["-O1", "-g", "-D__PTHREAD", "-DAdd_"], False),
    "verif":   ("gcc",   ["-O1", "-g", "-D__PTHREAD", "-DAdd_", "-DSLU_MT_VERIF"], True),
    # the configuration of the repository's own CMake build: dense kernels from the BLAS (CBLAS of /repo; ?trsm_/?gemm_ from harness/ref_blas3.c)
    "vendor":  ("gcc",   ["-O1", "-g", "-D__PTHREAD", "-DAdd_", "-DSLU_MT_VERIF", "-DUSE_VENDOR_BLAS"], True),
    "asan":    ("clang", ["-O1", "-g", "-D__PTHREAD", "-DAdd_", "-DSLU_MT_VERIF",
                          "-fsanitize=address,undefined", "-fno-sanitize=signed-integer-overflow", "-fno-omit-frame-pointer",
                          "-fno-sanitize-recover=undefined"], True),
    "tsan":    ("clang", ["-O1", "-g", "-D__PTHREAD", "-DAdd_", "-DSLU_MT_VERIF",
                          "-fsanitize=thread"], True),
    "longint": ("gcc",   ["-O1", "-g", "-D__PTHREAD", "-DAdd_", "-DSLU_MT_VERIF", "-D_LONGINT"], True),
    "omp":     ("gcc",   ["-O1", "-g", "-D__OPENMP", "-fopenmp", "-DAdd_", "-DSLU_MT_VERIF"], True),
}
COMMON = ["-std=gnu99", "-w", "-fPIC"]


def _sources():
    src = sorted(glob.glob(os.path.join(REPO, "SRC", "*.c")))
    src = [f for f in src if os.path.basename(f) != "sp_ienv.c"]  # harness supplies the tunable one
    cblas = sorted(glob.glob(os.path.join(REPO, "CBLAS", "*.c")))
    cblas = [f for f in cblas if not os.path.basename(f).endswith("myblas2.c")]
    return src, cblas


def tree_hash():
    h = hashlib.sha256()
    for d in ("SRC", "CBLAS"):
        for f in sorted(glob.glob(os.path.join(REPO, d, "*.[ch]"))):
            h.update(f.encode())
            h.update(open(f, "rb").read())
    for f in sorted(glob.glob(os.path.join(HARNESS, "verif_seams.h"))):
        h.update(open(f, "rb").read())
    return h.hexdigest()[:16]


def _prune_old(keep):
    """disk is limited: keep the two most recently used older trees, and never remove one that was used in the last
    hour (another check, or a run against a seeded tree, may be using it)"""
    if not os.path.isdir(BUILD):
        return
    now = time.time()
    ents = [d for d in os.listdir(BUILD) if d != keep and os.path.isdir(os.path.join(BUILD, d))]
    ents.sort(key=lambda d: os.path.getmtime(os.path.join(BUILD, d)))
    for d in ents[:-2] if len(ents) > 2 else []:
        if now - os.path.getmtime(os.path.join(BUILD, d)) > 3600:
            shutil.rmtree(os.path.join(BUILD, d), ignore_errors=True)


class _flock:
    """inter-process lock: two checks started together must not build the same tree twice (re-entrant per process)"""
    depth = 0
    fh = None

    def __enter__(self):
        if _flock.depth == 0:
            os.makedirs(BUILD, exist_ok=True)
            _flock.fh = open(os.path.join(BUILD, ".lock"), "w")
            fcntl.flock(_flock.fh, fcntl.LOCK_EX)
        _flock.depth += 1

    def __exit__(self, *a):
        _flock.depth -= 1
        if _flock.depth == 0:
            fcntl.flock(_flock.fh, fcntl.LOCK_UN)
            _flock.fh.close()


def ensure(variant="verif", quiet=True):
    """Return (libpath, cc, cflags list for harness compilation)."""
    with _LOCK, _flock():
        return _ensure(variant, quiet)


def _ensure(variant, quiet):
    cc, flags, seams = VARIANTS[variant]
    th = tree_hash()
    out = os.path.join(BUILD, th, variant)
    lib = os.path.join(out, "libslu.a")
    cflags = COMMON + flags + (SEAMS if seams else []) + ["-I" + os.path.join(REPO, "SRC"), "-I" + HARNESS]
    if os.path.exists(lib):
        return lib, cc, cflags
    os.makedirs(out, exist_ok=True)
    _prune_old(th)
    src, cblas = _sources()
    jobs = []
    for f in src + cblas:
        tag = "S_" if f in src else "B_"
        o = os.path.join(out, tag + os.path.basename(f)[:-2] + ".o")
        jobs.append((f, o))

    def comp(job):
        f, o = job
        r = subprocess.run([cc] + cflags + ["-c", f, "-o", o], capture_output=True, text=True)
        return (f, r.returncode, r.stderr)

    t0 = time.time()
    with ThreadPoolExecutor(max_workers=16) as ex:
        res = list(ex.map(comp, jobs))
    bad = [(f, e) for f, rc, e in res if rc != 0]
    if bad:
        shutil.rmtree(out, ignore_errors=True)
        msg = "\n".join(f"{f}:\n{e[-2000:]}" for f, e in bad[:5])
        raise RuntimeError("library build failed (%s):\n%s" % (variant, msg))
    tmp = lib + ".tmp"
    if os.path.exists(tmp):
        os.remove(tmp)
    subprocess.run(["ar", "crs", tmp] + [o for _, o in jobs], check=True)
    os.replace(tmp, lib)
    if not quiet:
        print("built %s in %.1fs" % (lib, time.time() - t0), file=sys.stderr)
    return lib, cc, cflags


def harness(name, sources, variant="verif", defines=(), extra_link=(), wrap=()):
    """Compile and link a harness program against the given library variant."""
    with _LOCK, _flock():
        return _harness(name, sources, variant, defines, extra_link, wrap)


def _harness(name, sources, variant, defines, extra_link, wrap):
    lib, cc, cflags = ensure(variant)
    out = os.path.join(os.path.dirname(lib), name)
    srcs = [s if os.path.isabs(s) else os.path.join(HARNESS, s) for s in sources]
    if variant == "vendor":
        srcs.append(os.path.join(HARNESS, "ref_blas3.c"))
    deps = srcs + glob.glob(os.path.join(HARNESS, "*.h")) + [lib]
    if os.path.exists(out) and all(os.path.getmtime(out) >= os.path.getmtime(d) for d in deps):
        return out
    wl = []
    for w in wrap:
        wl.append("-Wl,--wrap=" + w)
    cmd = [cc] + cflags + ["-D" + d for d in defines] + srcs + [lib] + wl + list(extra_link) + ["-lm", "-lpthread", "-o", out + ".tmp"]
    r = subprocess.run(cmd, capture_output=True, text=True)
    if r.returncode != 0:
        raise RuntimeError("harness build failed: %s\n%s" % (" ".join(cmd), r.stderr[-4000:]))
    os.chmod(out + ".tmp", 0o755)
    os.replace(out + ".tmp", out)
    return out


if __name__ == "__main__":
    for v in sys.argv[1:] or ["verif"]:
        print(ensure(v, quiet=False)[0])
