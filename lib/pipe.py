"""Driving the real factorization (drv_pipe) and validating its traces against SluPipe."""
import os, json, random, subprocess, time
import build, tlc, forests
from common import pmap, NCPU

PRECS = {"s": 1, "d": 2, "c": 3, "z": 4}


def driver(prec="d", variant="verif"):
    return build.harness("drv_pipe_" + prec, ["drv_pipe.c", "verif_rt.c"], variant=variant, defines=["PREC=%d" % PRECS[prec]], wrap=["pthread_mutex_unlock", "pthread_mutex_lock"])


def job_line(j):
    return "job " + " ".join("%s=%s" % (k, v) for k, v in j.items())


def random_job(rng, idx, outdir, nmax=40, threads=(2, 3, 4, 8), kinds=("forest", "forest", "random", "banded", "arrow", "grid")):
    kind = rng.choice(kinds)
    j = {"id": "j%d" % idx, "gen": kind, "P": rng.choice(threads), "ps": rng.choice([1, 2, 3, 4, 6, 8]),
         "relax": rng.choice([1, 2, 3, 4]), "maxsuper": rng.choice([2, 3, 4, 8]),
         "pert": rng.choice([0, 10, 30, 60]), "seed": rng.randrange(1, 10 ** 6),
         "vstyle": rng.choice([0, 0, 0, 3]), "nrhs": 1, "timeout": 120}
    if kind == "forest":
        n = rng.randint(3, nmax)
        par = forests.random_forest(n, rng, chain_bias=rng.choice([0.3, 0.5, 0.8]))
        j.update(par=",".join(map(str, par)), dens=rng.choice([100, 60, 30]), lowfill=rng.choice([0, 40, 80]))
    elif kind == "random":
        n = rng.randint(3, nmax)
        j.update(n=n, dens=rng.choice([40, 80, 150, 300]), fulldiag=rng.choice([0, 1]), order=rng.choice([-1, -1, 0, 1, 2, 3]))
    elif kind == "banded":
        n = rng.randint(3, nmax)
        j.update(n=n, kl=rng.randint(0, 3), ku=rng.randint(0, 3), order=rng.choice([-1, -1, 1, 3]))
    elif kind == "arrow":
        n = rng.randint(3, nmax)
        j.update(n=n, last=rng.choice([0, 1]), order=rng.choice([-1, 1, 2, 3]))
    else:
        k = rng.randint(2, max(2, int(nmax ** 0.5)))
        j.update(kl=k, n=k * k, order=rng.choice([-1, 1, 2, 3]))
    if rng.random() < 0.6:     # widen the windows right after the library's critical sections
        j.update(focus="unlock", focuspct=rng.choice([30, 50, 70]), focusus=rng.choice([100, 300, 600]))
    j["out"] = os.path.join(outdir, j["id"] + ".ndjson")
    return j


def uptri_pattern(rng, nmax=24, relax=3):
    """unsymmetric block patterns for the symmetric mode: blocks whose upper triangle is (nearly) dense, with a few full
    columns, followed by dense / random blocks -- the column counts of A'+A then exceed the rows A has in a relaxed
    supernode, the case the max() in p?PresetMap is there for.  Returns (n, row-major 0/1 string)."""
    sizes = []
    while sum(sizes) < 4 or (sum(sizes) < nmax - 3 and rng.random() < 0.6):
        sizes.append(rng.randint(2, 10))
    n = min(sum(sizes), 60)
    pat = [[0] * n for _ in range(n)]
    o = 0
    for b in sizes:
        b = min(b, n - o)
        if b <= 0:
            break
        kind = rng.choice(["uptri", "uptri", "dense", "rand"])
        fillp = rng.choice([1.0, 1.0, 0.9])
        for j in range(o, o + b):
            for i in range(o, o + b):
                if i == j or kind == "dense" or (kind == "uptri" and i <= j and rng.random() < fillp) or (kind == "rand" and rng.random() < 0.4):
                    pat[i][j] = 1
        if kind == "uptri":
            full = rng.sample(range(o, o + b), rng.choice([1, 1, 2]))
            if rng.random() < 0.6 and relax < b:      # the first column behind a relaxed supernode at the bottom of the chain
                full = [o + relax]
            for c in full:
                for i in range(o, o + b):
                    pat[i][c] = 1
        o += b
    return n, "".join(str(pat[i][j]) for i in range(n) for j in range(n))


def run_jobs(jobs, outdir, prec="d", variant="verif", shards=NCPU, env=None):
    """Run the jobs through drv_pipe, sharded over processes; returns {id: status}."""
    exe = driver(prec, variant)
    shards = max(1, min(shards, len(jobs)))
    files = []
    for s in range(shards):
        fn = os.path.join(outdir, "jobs_%s_%d.txt" % (prec, s))
        with open(fn, "w") as f:
            for j in jobs[s::shards]:
                f.write(job_line(j) + "\n")
        files.append(fn)
    e = dict(os.environ)
    e.setdefault("ASAN_OPTIONS", "detect_leaks=0:abort_on_error=1")
    if env:
        e.update(env)

    def one(fn):
        p = subprocess.run([exe, fn], capture_output=True, text=True, env=e)
        return p.stdout + "\n" + p.stderr[-2000:]
    status = {}
    for out in pmap(one, files, workers=shards):
        for line in out.splitlines():
            if line.startswith("JOB "):
                kv = dict(x.split("=", 1) for x in line.split()[1:])
                status[kv["id"]] = kv["status"]
    return status


def validate(jobs, status, workdir, design=None, workers=NCPU, timeout=300):
    """TLC-validate every trace; returns list of (job, result dict)."""
    tlc.stage(workdir)

    def one(j):
        if status.get(j["id"]) != "ok" or not os.path.exists(j["out"]):
            return (j, None)
        try:
            with open(j["out"]) as fh:
                first = fh.read(12)
            if not first.startswith('{"e":"Config'):
                if not prepare(j["out"]):
                    return (j, {"ok": False, "timeout": False, "violated": [], "rejected_line": None, "errors": ["no factorization recorded"], "generated": 0, "distinct": 0, "out": ""})
        except OSError:
            return (j, None)
        r = tlc.pipe_trace(workdir, j["id"], j["out"], design=design, timeout=timeout)
        if tlc.inconclusive(r):        # the tool did not decide (load): once more with a longer limit
            r = tlc.pipe_trace(workdir, j["id"] + "t", j["out"], design=design, timeout=3 * timeout)
        if not r["ok"] and not r["timeout"]:
            r2 = tlc.pipe_trace(workdir, j["id"] + "r", j["out"], design=design, timeout=timeout)   # a rejection must repeat
            if r2["ok"]:
                r = r2
                r["flaky"] = True
        return (j, r)
    return pmap(one, jobs, workers=workers)


# the events SluPipeTrace knows; everything else in a stream (call records, events of other wrapped routines such as the
# condition estimator, the refinement loop, triangular solves) is not part of a factorization
PIPE_EVENTS = ("Loop", "Exit", "Sched", "NewNsuper", "LsubAlloc", "SnPivot", "SnFact", "SnRelease", "Mark", "DfsBegin", "DfsEnd", "Wait", "Climb",
               "ClimbWait", "BusyUpdBegin", "BusyUpdEnd", "Join", "Pivot", "Release", "UAlloc", "PruneBegin", "PruneEnd", "ColDone", "PanelDone",
               "LusupAlloc", "DynMap", "JoinAll", "FixupMove", "Wrap", "Result")
_IS_PIPE = tuple('{"e":"%s"' % e for e in PIPE_EVENTS)


def prepare(path):
    """Turn a raw event file into per-factorization trace files:
    line 1 = Config synthesized from the logged Etree/SuperBnd/Create events (the elimination tree,
    H-partition and tuning parameters the library itself computed), line 2 = Create, then the events,
    then the Result record of the harness (if any).  Returns the list of files written."""
    with open(path) as f:
        lines = [l for l in f.read().splitlines() if l]
    meta = {}
    segs, cur = [], None
    for ln in lines:
        if ln.startswith('{"e":"Meta"'):
            meta = json.loads(ln)
            continue
        if ln.startswith('{"e":"Etree"'):
            cur = {"etree": json.loads(ln), "lines": []}
            segs.append(cur)
            continue
        if cur is None:
            continue
        if ln.startswith('{"e":"SuperBnd"'):
            cur["sbnd"] = json.loads(ln)
        elif ln.startswith('{"e":"Create"'):
            cur["create"] = ln
        elif ln.startswith(_IS_PIPE):
            cur["lines"].append(ln)
    outs = []
    for k, sg in enumerate(segs):
        if "create" not in sg or "sbnd" not in sg:
            continue
        cr = json.loads(sg["create"])
        a = cr["a"]
        cfg = {"e": "Config", "id": meta.get("id", "?"), "prec": meta.get("prec", "?"), "n": a[1], "P": a[0],
               "ps": a[5], "relax": a[6], "maxsuper": a[7], "overflow": meta.get("overflow", 0),
               "etree": [x + 1 for x in sg["etree"]["l"]],
               "sbnd": [i + 1 for i, x in enumerate(sg["sbnd"]["l"]) if x != 0]}
        if "colcnt" in meta and len(meta["colcnt"]) == a[1] and len(segs) == 1:
            cfg["colcnt"] = meta["colcnt"]
        out = path if (len(segs) == 1) else path.replace(".ndjson", "") + ".f%d.ndjson" % k
        with open(out + ".tmp", "w") as f:
            f.write(json.dumps(cfg) + "\n" + sg["create"] + "\n" + "\n".join(sg["lines"]) + "\n")
        os.replace(out + ".tmp", out)
        outs.append(out)
    return outs


def trace_info(path):
    """Config and Result records plus the event count of a recorded trace."""
    with open(path) as f:
        lines = f.readlines()
    cfg = json.loads(lines[0])
    res = json.loads(lines[-1]) if lines and '"Result"' in lines[-1] else None
    kinds = {}
    for ln in lines[1:-1]:
        i = ln.find('"e":"')
        k = ln[i + 5:ln.find('"', i + 5)]
        kinds[k] = kinds.get(k, 0) + 1
    return cfg, res, len(lines), kinds


def explain(r, path):
    if r is None:
        return "no trace"
    if r["timeout"]:
        return "TLC timed out"
    if r["violated"]:
        return "invariant(s) violated during trace validation: " + ",".join(r["violated"])
    if r["rejected_line"]:
        try:
            with open(path) as f:
                ln = f.readlines()[r["rejected_line"] - 1].strip()
        except Exception:
            ln = "?"
        return "event at line %d is not a step of the specification: %s" % (r["rejected_line"], ln[:300])
    return "TLC error: " + "; ".join(r["errors"][:3])


def repo_test_driver(prec="d", variant="verif"):
    """The repository's own test driver TESTING/p?drive.c, unmodified, linked with the hooked library
    and the event runtime: the existing tests become trace generators."""
    T = os.path.join(build.REPO, "TESTING")
    srcs = [os.path.join(T, f % prec) for f in ("p%sdrive.c", "sp_%sconvert.c", "p%sgst01.c", "p%sgst02.c", "p%sgst04.c", "p%sgst07.c", "p%sgssv.c", "p%sgssvx.c")]
    # TESTING/MATGEN as an archive (members are pulled only when referenced, as in the repository's own build)
    import glob, subprocess as sp
    lib, cc, cflags = build.ensure(variant)
    mg = os.path.join(os.path.dirname(lib), "libmatgen.a")
    msrc = sorted(glob.glob(os.path.join(T, "MATGEN", "*.c")))
    if not os.path.exists(mg) or any(os.path.getmtime(f) > os.path.getmtime(mg) for f in msrc):
        od = os.path.join(os.path.dirname(lib), "matgen_o")
        os.makedirs(od, exist_ok=True)
        objs = []
        for f in msrc:
            o = os.path.join(od, os.path.basename(f)[:-2] + ".o")
            r = sp.run([cc] + [x for x in cflags if not x.startswith("-include") and "verif_seams" not in x and not x.startswith("-DUSER_")] + ["-w", "-c", f, "-o", o], capture_output=True, text=True)
            if r.returncode == 0:
                objs.append(o)
        sp.run(["ar", "crs", mg + ".tmp"] + objs, check=True)
        os.replace(mg + ".tmp", mg)
    return build.harness("repo_p%stest" % prec, srcs + ["verif_rt.c"], variant=variant, extra_link=["-I" + T, mg, "-lopenblas"], wrap=["pthread_mutex_unlock"])


def run_repo_test(prec, args, outdir, name, perturb=0, timeout=900, stdin_path=None):
    exe = repo_test_driver(prec)
    stream = os.path.join(outdir, name + ".stream.ndjson")
    if os.path.exists(stream):
        os.remove(stream)
    e = dict(os.environ, VERIF_STREAM=stream, VERIF_EVCAP=str(1 << 20))
    if perturb:
        e["VERIF_PERTURB"] = str(perturb)
    try:
        fin = open(stdin_path) if stdin_path else subprocess.DEVNULL
        p = subprocess.run([exe] + args, stdin=fin, capture_output=True, text=True, env=e, timeout=timeout)
        rc = p.returncode
    except subprocess.TimeoutExpired:
        rc = -9
    return rc, stream
