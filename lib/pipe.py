"""Driving the real factorization (drv_pipe) and validating its traces against SluPipe."""
import os, json, random, subprocess, time
import build, tlc, forests
from common import pmap, NCPU

PRECS = {"s": 1, "d": 2, "c": 3, "z": 4}


def driver(prec="d", variant="verif"):
    return build.harness("drv_pipe_" + prec, ["drv_pipe.c", "verif_rt.c"], variant=variant, defines=["PREC=%d" % PRECS[prec]])


def job_line(j):
    return "job " + " ".join("%s=%s" % (k, v) for k, v in j.items())


def random_job(rng, idx, outdir, nmax=40, threads=(2, 3, 4, 8), kinds=("forest", "forest", "random", "banded", "arrow", "grid")):
    kind = rng.choice(kinds)
    j = {"id": "j%d" % idx, "gen": kind, "P": rng.choice(threads), "ps": rng.choice([1, 2, 3, 4, 6, 8]),
         "relax": rng.choice([1, 2, 3, 4]), "maxsuper": rng.choice([2, 3, 4, 8]),
         "pert": rng.choice([0, 10, 30, 60]), "seed": rng.randrange(1, 10 ** 6),
         "vstyle": rng.choice([0, 0, 0, 3]), "nrhs": 1, "timeout": 120}
    if kind == "forest":
        n = rng.randint(3, nmax)
        par = forests.random_forest(n, rng, chain_bias=rng.choice([0.3, 0.5, 0.8]))
        j.update(par=",".join(map(str, par)), dens=rng.choice([100, 60, 30]), lowfill=rng.choice([0, 40, 80]))
    elif kind == "random":
        n = rng.randint(3, nmax)
        j.update(n=n, dens=rng.choice([40, 80, 150, 300]), fulldiag=rng.choice([0, 1]), order=rng.choice([-1, -1, 0, 1, 2, 3]))
    elif kind == "banded":
        n = rng.randint(3, nmax)
        j.update(n=n, kl=rng.randint(0, 3), ku=rng.randint(0, 3), order=rng.choice([-1, -1, 1, 3]))
    elif kind == "arrow":
        n = rng.randint(3, nmax)
        j.update(n=n, last=rng.choice([0, 1]), order=rng.choice([-1, 1, 2, 3]))
    else:
        k = rng.randint(2, max(2, int(nmax ** 0.5)))
        j.update(kl=k, n=k * k, order=rng.choice([-1, 1, 2, 3]))
    j["out"] = os.path.join(outdir, j["id"] + ".ndjson")
    return j


def run_jobs(jobs, outdir, prec="d", variant="verif", shards=NCPU, env=None):
    """Run the jobs through drv_pipe, sharded over processes; returns {id: status}."""
    exe = driver(prec, variant)
    shards = max(1, min(shards, len(jobs)))
    files = []
    for s in range(shards):
        fn = os.path.join(outdir, "jobs_%s_%d.txt" % (prec, s))
        with open(fn, "w") as f:
            for j in jobs[s::shards]:
                f.write(job_line(j) + "\n")
        files.append(fn)
    e = dict(os.environ)
    e.setdefault("ASAN_OPTIONS", "detect_leaks=0:abort_on_error=1")
    if env:
        e.update(env)

    def one(fn):
        p = subprocess.run([exe, fn], capture_output=True, text=True, env=e)
        return p.stdout + "\n" + p.stderr[-2000:]
    status = {}
    for out in pmap(one, files, workers=shards):
        for line in out.splitlines():
            if line.startswith("JOB "):
                kv = dict(x.split("=", 1) for x in line.split()[1:])
                status[kv["id"]] = kv["status"]
    return status


def validate(jobs, status, workdir, design=None, workers=NCPU, timeout=300):
    """TLC-validate every trace; returns list of (job, result dict)."""
    tlc.stage(workdir)

    def one(j):
        if status.get(j["id"]) != "ok" or not os.path.exists(j["out"]):
            return (j, None)
        r = tlc.pipe_trace(workdir, j["id"], j["out"], design=design, timeout=timeout)
        if not r["ok"] and not r["timeout"]:
            r2 = tlc.pipe_trace(workdir, j["id"] + "r", j["out"], design=design, timeout=timeout)   # a rejection must repeat
            if r2["ok"]:
                r = r2
                r["flaky"] = True
        return (j, r)
    return pmap(one, jobs, workers=workers)


def trace_info(path):
    """Config and Result records plus the event count of a recorded trace."""
    with open(path) as f:
        lines = f.readlines()
    cfg = json.loads(lines[0])
    res = json.loads(lines[-1]) if lines and '"Result"' in lines[-1] else None
    kinds = {}
    for ln in lines[1:-1]:
        i = ln.find('"e":"')
        k = ln[i + 5:ln.find('"', i + 5)]
        kinds[k] = kinds.get(k, 0) + 1
    return cfg, res, len(lines), kinds


def explain(r, path):
    if r is None:
        return "no trace"
    if r["timeout"]:
        return "TLC timed out"
    if r["violated"]:
        return "invariant(s) violated during trace validation: " + ",".join(r["violated"])
    if r["rejected_line"]:
        try:
            with open(path) as f:
                ln = f.readlines()[r["rejected_line"] - 1].strip()
        except Exception:
            ln = "?"
        return "event at line %d is not a step of the specification: %s" % (r["rejected_line"], ln[:300])
    return "TLC error: " + "; ".join(r["errors"][:3])
