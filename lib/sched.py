"""Replay of TLC-generated behaviours of SluSched.tla into the real scheduling layer (drv_sched)."""
import os, re, json, subprocess
import build, tlc
from tlc import tl, ts


def driver(variant="verif"):
    return build.harness("drv_sched", ["drv_sched.c", "verif_rt.c"], variant=variant)


def generate(workdir, name, par, sbnd, P, ps, relax, maxsuper, joinrule="max", maxidle=1, simulate=None, depth=None, timeout=900):
    """One TLC run of SluSched for one forest: exhaustive (one test per transition, invariants checked on every state)
    or -simulate (one test per complete random behaviour).  Returns (tests file or None, TLC result, number of tests)."""
    tlc.stage(workdir)
    mod = "MCS_" + name
    n = len(par)
    with open(os.path.join(workdir, mod + ".tla"), "w") as f:
        f.write('---- MODULE %s ----\nEXTENDS SluSched\nParDef == %s\nSbndDef == %s\nASSUME PrintT(<<"PST", PST, [k \\in 1..Len(RLT) |-> RLT[k][1]]>>)\n====\n' % (mod, tl(par), ts(sbnd)))
    cfg = os.path.join(workdir, mod + ".cfg")
    with open(cfg, "w") as f:
        f.write("CONSTANTS N = %d P = %d PanelSize = %d Relax = %d MaxSuper = %d\n" % (n, P, ps, relax, maxsuper))
        f.write(' FixupOrder = "storage" BusyRead = "first" PruneOrder = "before" ZeroPivots = FALSE\n')
        f.write(' JoinRule = "%s" MaxIdle = %d\n' % (joinrule, maxidle))
        f.write("CONSTANT Par <- ParDef\nCONSTANT Sbnd <- SbndDef\n")
        if simulate:
            f.write("SPECIFICATION SSpec\nCONSTRAINT Emit\nCONSTRAINT IdleBound\n")
        else:
            f.write("SPECIFICATION SSpec\nVIEW SView\nACTION_CONSTRAINT EmitEdge\nCONSTRAINT IdleBound\n")
        f.write("INVARIANTS SOncePerPanel SDone STasksExact SBusyIsOwned SMarkReadsNumbered SLbusyCovers\nCHECK_DEADLOCK FALSE\n")
    r = tlc.run(workdir, mod, cfg, workers=1, timeout=timeout, xmx="3g", simulate=simulate, depth=depth)
    for suffix in (".tla", ".cfg"):
        try:
            os.remove(os.path.join(workdir, mod + suffix))
        except OSError:
            pass
    if r["timeout"] or not r["ok"]:
        return None, r, 0
    out = r["out"]
    tests, pst = [], None
    flat = re.sub(r"\s+", "", out)
    for m in re.finditer(r'<<"(EDGE|BEH|PST)",(.*?)>>(?=<<"|[A-Za-z]|$)', flat):
        body = "[" + m.group(2).replace("<<", "[").replace(">>", "]") + "]"
        try:
            v = json.loads(body)
        except ValueError:
            continue
        if m.group(1) == "PST":
            pst = v
        else:
            tests.append((m.group(1), v))
    return (tests, pst), r, len(tests)


def write_tests(path, par, P, ps, relax, tests, pst, q0, maxsuper=100):
    """pst / q0: the panel partition and the initial task queue as TLC computed them (SluPipe!PST, RLT)"""
    n = len(par)
    npan = len(pst)
    with open(path, "w") as f:
        f.write("cfg %d %d %d %d %d %d\n" % (n, ps, relax, P, npan, maxsuper))
        f.write("etree " + " ".join(str(p - 1) for p in par) + "\n")
        f.write("pst " + " ".join("%d %d %d" % (t[0] - 1, t[1], t[2]) for t in pst) + "\n")
        f.write("rlx %d %s\n" % (len(q0), " ".join(str(x - 1) for x in q0)))
        for k, (kind, t) in enumerate(tests):
            hist = t[0]
            f.write("test %d %d\n" % (k, len(hist)))
            for s in hist:
                code, p = s[0], s[1] - 1
                if code in (1, 5):
                    v = [s[2]]
                elif code == 2:
                    v = [s[2] - 1, s[3] - 1, s[4] - 1, s[5], s[6]]
                elif code == 3:
                    v = [s[2] - 1, s[3] - 1, s[4]]
                else:
                    v = [x - 1 for x in s[2:]]
                f.write("s %d %d %d %s\n" % (code, p, len(v), " ".join(map(str, v))))
            if kind == "EDGE":
                st, wv = t[1], t[2]
                ps_, uk, ukr, fb, spin = st[:npan], st[npan:2 * npan], st[2 * npan], st[2 * npan + 1:3 * npan + 1], st[3 * npan + 1:]
                f.write("fin %s %s %d %s %s\n" % (" ".join(map(str, ps_)), " ".join(map(str, uk)), ukr, " ".join(str(x - 1) for x in fb), " ".join(map(str, spin))))
                for w in wv:
                    f.write("w %d %d %s\n" % (w[0] - 1, w[1] - 1, " ".join(map(str, w[2:]))))
            else:
                f.write("nofin\n")
    return npan


def replay(tests_path, out_path, variant="verif", timeout=600):
    p = subprocess.run([driver(variant), tests_path, out_path], capture_output=True, text=True, timeout=timeout)
    recs = []
    if os.path.exists(out_path):
        with open(out_path) as f:
            recs = [json.loads(l) for l in f if l.strip()]
    summ = recs[-1] if recs and "tests" in recs[-1] else None
    return p.returncode, summ, [r for r in recs if "test" in r], p.stderr[-400:]
