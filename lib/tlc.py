"""Running TLC: model checking runs and trace validation runs."""
import os, re, subprocess, shutil, json, glob, threading
from common import SPEC

JAR = "/opt/veriftools/tla/tla2tools.jar:/opt/veriftools/tla/CommunityModules-deps.jar"


def _java(xmx="2g", xss="32m", extra=()):
    return ["java", "-Xss" + xss, "-Xmx" + xmx, "-XX:+UseParallelGC", "-XX:ParallelGCThreads=2"] + list(extra) + ["-cp", JAR, "tlc2.TLC"]


def stage(workdir, modules=None):
    """Copy the specification modules next to the generated MC module (atomic, idempotent)."""
    os.makedirs(workdir, exist_ok=True)
    for f in glob.glob(os.path.join(SPEC, "*.tla")):
        dst = os.path.join(workdir, os.path.basename(f))
        data = open(f, "rb").read()
        try:
            if open(dst, "rb").read() == data:
                continue
        except OSError:
            pass
        tmp = dst + ".%d.%d.tmp" % (os.getpid(), threading.get_ident())      # several threads of one check may stage the same directory
        with open(tmp, "wb") as fh:
            fh.write(data)
        os.replace(tmp, dst)


def parse(out):
    r = {"ok": False, "generated": 0, "distinct": 0, "violated": [], "errors": [], "rejected_line": None, "depth": 0}
    m = re.search(r"(\d+) states generated, (\d+) distinct states found", out)
    if m:
        r["generated"], r["distinct"] = int(m.group(1)), int(m.group(2))
    m = re.search(r"depth of the complete state graph search is (\d+)", out)
    if m:
        r["depth"] = int(m.group(1))
    r["violated"] = re.findall(r"Invariant (\w+) is violated", out)
    if "Temporal properties were violated" in out or "is violated by the following behavior" in out:
        r["violated"].append("TEMPORAL")
    if re.search(r"Deadlock reached", out):
        r["violated"].append("DEADLOCK")
    m = re.search(r'"REJECTED at line",\s*(\d+)', out)
    if m:
        r["rejected_line"] = int(m.group(1))
    r["errors"] = [e for e in re.findall(r"Error: (.*)", out)
                   if "is violated" not in e and "behavior up to this point" not in e and "postcondition" not in e.lower()]
    done = "Model checking completed. No error has been found." in out
    m = re.search(r"Progress: (\d+) states checked, (\d+) traces generated", out)
    if m and not done and "Finished in" in out and not r["errors"]:      # -simulate run that generated all its traces
        done = True
        r["generated"] = r["distinct"] = int(m.group(1))
        r["sim_traces"] = int(m.group(2))
    r["ok"] = done and not r["violated"] and r["rejected_line"] is None
    r["assert"] = re.findall(r"The first argument of Assert evaluated to FALSE; the second argument was:\s*\"([^\"]*)\"", out)
    return r


def inconclusive(r):
    """the tool did not decide: time limit under load, or the JVM never got to the model (no memory, killed).  An evaluation error
    of TLC on a record, an invariant violation or a rejected line are decisions and are NOT inconclusive."""
    if r.get("ok") or r.get("rejected_line") is not None or r.get("violated"):
        return False
    out = r.get("out", "")
    return bool(r.get("timeout")) or "Computing initial states" not in out or "OutOfMemoryError" in out or "insufficient memory" in out


def run(workdir, module, cfg, workers=1, timeout=600, env=None, xmx="2g", xss="32m", simulate=None, depth=None, extra=()):
    md = os.path.join(workdir, "md_" + module + "_" + os.path.basename(cfg).replace(".cfg", ""))
    shutil.rmtree(md, ignore_errors=True)
    cmd = _java(xmx, xss) + ["-workers", str(workers), "-metadir", md, "-config", cfg, "-nowarning"]
    if simulate:
        cmd += ["-simulate", "num=%d" % simulate]
        if depth:
            cmd += ["-depth", str(depth)]
    cmd += list(extra) + [module + ".tla"]
    e = dict(os.environ)
    if env:
        e.update(env)
    try:
        p = subprocess.run(cmd, cwd=workdir, capture_output=True, text=True, timeout=timeout, env=e)
        out = p.stdout + p.stderr
        r = parse(out)
        r["rc"] = p.returncode
        r["timeout"] = False
    except subprocess.TimeoutExpired as ex:
        out = (ex.stdout or b"").decode("utf8", "replace") if isinstance(ex.stdout, bytes) else (ex.stdout or "")
        r = parse(out)
        r["rc"] = -1
        r["timeout"] = True
        r["ok"] = False
    r["out"] = out
    shutil.rmtree(md, ignore_errors=True)
    for f in glob.glob(os.path.join(workdir, "*_TTrace_*")):
        try:
            os.remove(f)
        except OSError:
            pass
    return r


def tl(seq):
    return "<<" + ",".join(str(x) for x in seq) + ">>"


def ts(s):
    return "{" + ",".join(str(x) for x in sorted(s)) + "}"


# ---------------------------------------------------------------- SluPipe runs
PIPE_INVS = ("TypeOK NoWriteWhileRead NoWriteWhileWrite ReadFinal BusyReadFinal NoDoubleUpdate ExactlyOnce ChainShape "
             "LbusyCoversChain RelaxBottomIsLastChild MarkReadsNumbered TasksExact OncePerPanel QueueBound NeverRoot "
             "WaitOnBusy TopoNumbering SupernodeMaps LsubDisjoint CompactionSafe Finished").split()
# the design of the code as it is in /repo (after the fix commits)
CODE_DESIGN = {"FixupOrder": '"storage"', "BusyRead": '"first"', "PruneOrder": '"before"'}


def pipe_mc(workdir, name, par, sbnd, P, ps, relax, maxsuper, design=None, zero=False, liveness=True,
            workers=1, timeout=900, xmx="3g", invs=PIPE_INVS, simulate=None, depth=None):
    """One exhaustive (or simulation) TLC run of SluPipe for one forest / parameter set."""
    design = design or CODE_DESIGN
    stage(workdir)
    mod = "MC_" + name
    with open(os.path.join(workdir, mod + ".tla"), "w") as f:
        f.write("---- MODULE %s ----\nEXTENDS SluPipe\nParDef == %s\nSbndDef == %s\nASSUME \\A j \\in 1..%d : (Cardinality({i \\in 1..%d : ParDef[i] = j}) # 1) => j \\in SbndDef\n====\n" % (mod, tl(par), ts(sbnd), len(par), len(par)))
    cfg = os.path.join(workdir, mod + ".cfg")
    with open(cfg, "w") as f:
        f.write("CONSTANTS N = %d P = %d PanelSize = %d Relax = %d MaxSuper = %d\n" % (len(par), P, ps, relax, maxsuper))
        f.write(" FixupOrder = %s BusyRead = %s PruneOrder = %s ZeroPivots = %s\n" % (
            design["FixupOrder"], design["BusyRead"], design["PruneOrder"], "TRUE" if zero else "FALSE"))
        f.write("CONSTANT Par <- ParDef\nCONSTANT Sbnd <- SbndDef\n")
        f.write("SPECIFICATION %s\n" % ("FairSpec" if liveness and not simulate else "Spec"))
        f.write("INVARIANTS " + " ".join(invs) + "\n")
        if liveness and not simulate:
            f.write("PROPERTY Termination\n")
        f.write("CHECK_DEADLOCK FALSE\n")
    return run(workdir, mod, cfg, workers=workers, timeout=timeout, xmx=xmx, simulate=simulate, depth=depth)


def pipe_trace(workdir, name, trace_path, design=None, timeout=300, extra_invs=("SlotBound",)):
    """Validate one recorded execution of the real p?gstrf against SluPipe."""
    design = design or CODE_DESIGN
    stage(workdir)
    with open(trace_path) as fh:
        c = json.loads(fh.readline())
    mod = "TR_" + name
    with open(os.path.join(workdir, mod + ".tla"), "w") as f:
        f.write("---- MODULE %s ----\nEXTENDS SluPipeTrace\n" % mod)
        f.write("LN == %d\nLP == %d\nLPS == %d\nLRL == %d\nLMS == %d\nLPar == %s\nLSbnd == %s\n====\n" % (
            c["n"], c["P"], c["ps"], c["relax"], c["maxsuper"], tl(c["etree"]), ts(c["sbnd"])))
    cfg = os.path.join(workdir, mod + ".cfg")
    with open(cfg, "w") as f:
        f.write("CONSTANTS FixupOrder = %s BusyRead = %s PruneOrder = %s ZeroPivots = TRUE\n" % (
            design["FixupOrder"], design["BusyRead"], design["PruneOrder"]))
        for a, b in (("N", "LN"), ("P", "LP"), ("PanelSize", "LPS"), ("Relax", "LRL"), ("MaxSuper", "LMS"), ("Par", "LPar"), ("Sbnd", "LSbnd")):
            f.write("CONSTANT %s <- %s\n" % (a, b))
        f.write("SPECIFICATION TSpec\nINVARIANTS " + " ".join(list(PIPE_INVS) + list(extra_invs)) + "\n")
        f.write("CONSTRAINT Progress\nPOSTCONDITION Accepted\nCHECK_DEADLOCK FALSE\n")
    r = run(workdir, mod, cfg, workers=1, timeout=timeout, env={"TRACE": trace_path}, xmx="2g")
    for suffix in (".tla", ".cfg"):
        try:
            os.remove(os.path.join(workdir, mod + suffix))
        except OSError:
            pass
    return r


def order_trace(workdir, name, trace_path, check_bound=True, timeout=1200):
    """Validate drv_order records against SluOrder (spec as oracle)."""
    stage(workdir)
    mod = "TROrd_" + name
    with open(os.path.join(workdir, mod + ".tla"), "w") as f:
        f.write("---- MODULE %s ----\nEXTENDS SluOrderTrace\n====\n" % mod)
    cfg = os.path.join(workdir, mod + ".cfg")
    with open(cfg, "w") as f:
        f.write("CONSTANT CheckBound = %s\nSPECIFICATION TSpec\nCONSTRAINT Progress\nPOSTCONDITION Accepted\nCHECK_DEADLOCK FALSE\n" % ("TRUE" if check_bound else "FALSE"))
    r = run(workdir, mod, cfg, workers=1, timeout=timeout, env={"TRACE": trace_path}, xmx="3g", xss="64m")
    for suffix in (".tla", ".cfg"):
        try:
            os.remove(os.path.join(workdir, mod + suffix))
        except OSError:
            pass
    return r


def validate_records(workdir, name, trace_module, records, constants="", timeout=400, max_bad=25):
    """One TLC step per record (trace_module must define TSpec/Progress/Accepted).  Returns
    (indices of rejected records, total distinct states, errors) -- after a rejection the remainder is
    validated again so that every failing record is found, not only the first."""
    import json as _json
    stage(workdir)
    mod = "TRR_" + name
    with open(os.path.join(workdir, mod + ".tla"), "w") as f:
        f.write("---- MODULE %s ----\nEXTENDS %s\n%s\n====\n" % (mod, trace_module, constants.split("@@")[0] if "@@" in constants else ""))
    cfg = os.path.join(workdir, mod + ".cfg")
    with open(cfg, "w") as f:
        f.write((constants.split("@@")[1] if "@@" in constants else constants) + "\nSPECIFICATION TSpec\nCONSTRAINT Progress\nPOSTCONDITION Accepted\nCHECK_DEADLOCK FALSE\n")
    bad, states, errors, base, rest = [], 0, [], 0, list(records)
    while rest:
        path = os.path.join(workdir, mod + ".ndjson")
        with open(path, "w") as f:
            for r in rest:
                f.write(_json.dumps(r) + "\n")
        v = run(workdir, mod, cfg, timeout=timeout, env={"TRACE": path}, xmx="3g")
        states += v["distinct"]
        if v["ok"]:
            break
        rl = v["rejected_line"]
        if not rl:
            errors += v["errors"][:2] or ["TLC failed"]
            break
        bad.append(base + rl - 1)
        base += rl
        rest = rest[rl:]
        if len(bad) >= max_bad:
            break
    return bad, states, errors
