"""Extract the ?gscon / ?lacon protocol records from a drv_api output stream."""
import json


def gscon_records(path):
    recs, cur = [], None
    with open(path) as f:
        for ln in f:
            if not ln.startswith('{"e":"'):
                continue
            e = ln[6:ln.find('"', 6)]
            if e == "GsconBegin":
                cur = {"norm": json.loads(ln)["a"][0], "seq": [], "solves": [], "n": 0}
            elif e == "GsconEnd":
                if cur is not None:
                    recs.append(cur)
                cur = None
            elif cur is not None and e == "Lacon":
                a = json.loads(ln)["a"]
                cur["n"] = a[0]
                cur["seq"].append([a[1], a[2]])
                cur["solves"].append([])
            elif cur is not None and e == "Trsv" and cur["solves"]:
                cur["solves"][-1].append(json.loads(ln)["a"])
    return recs
