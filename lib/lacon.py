"""Extract the ?gscon / ?lacon protocol records from a drv_api output stream."""
import json


def gscon_records(path):
    recs, cur = [], None
    with open(path) as f:
        for ln in f:
            if not ln.startswith('{"e":"'):
                continue
            e = ln[6:ln.find('"', 6)]
            if e == "GsconBegin":
                cur = {"norm": json.loads(ln)["a"][0], "seq": [], "solves": [], "n": 0}
            elif e == "GsconEnd":
                if cur is not None:
                    recs.append(cur)
                cur = None
            elif cur is not None and e == "Lacon":
                a = json.loads(ln)["a"]
                cur["n"] = a[0]
                cur["seq"].append([a[1], a[2], a[3] if len(a) > 3 else -1])
                cur["solves"].append([])
            elif cur is not None and e == "Trsv" and cur["solves"]:
                cur["solves"][-1].append(json.loads(ln)["a"])
    return recs


def rfs_records(path, cplx=False):
    """one record per ?gsrfs call of a drv_api output stream: the sp_?gemv / ?gstrs / ?lacon calls it made, in order
    (validated against SluRefine!RfsOK)"""
    recs, cur = [], None
    with open(path) as f:
        for ln in f:
            if not ln.startswith('{"e":"'):
                continue
            e = ln[6:ln.find('"', 6)]
            if e == "RfsBegin":
                a = json.loads(ln)["a"]
                cur = {"e": "Rfs", "op": a[0], "nrhs": a[1], "n": a[2], "cplx": 1 if cplx else 0, "ev": []}
            elif e == "RfsEnd":
                if cur is not None:
                    cur["info"] = json.loads(ln)["a"][1]
                    recs.append(cur)
                cur = None
            elif cur is not None and e == "Gemv":
                cur["ev"].append([1, json.loads(ln)["a"][0], 0])
            elif cur is not None and e == "Gstrs":
                cur["ev"].append([2, json.loads(ln)["a"][0], 0])
            elif cur is not None and e == "Lacon":
                a = json.loads(ln)["a"]
                cur["ev"].append([3, a[1], a[2], a[3] if len(a) > 3 else -1])
    return recs
