"""Postordered elimination forests (parent vectors, 1-based, root = n+1)."""
import random, sys


def all_forests(n):
    """All postordered forests on n nodes (Catalan(n) of them): par[j] > j, non-crossing."""
    res = []

    def rec(j, par, stack):
        # stack: open ancestors (each a node index whose subtree is still being filled), innermost last.
        # Build in postorder: node j's children are a suffix of the current list of completed roots.
        pass
    # simpler: generate by recursive structure: forest = sequence of trees; tree = forest of children + root
    from functools import lru_cache

    @lru_cache(None)
    def forests(k):
        """list of forests with k nodes, each as tuple of parent offsets relative to numbering 1..k, root = k+1"""
        if k == 0:
            return [()]
        out = []
        # last tree has size t (its root is node k); preceding forest has k - t nodes
        for t in range(1, k + 1):
            for head in forests(k - t):
                for kids in forests(t - 1):
                    # head nodes keep numbering 1..k-t, roots point to k+1
                    h = [p if p <= k - t else k + 1 for p in head]
                    # kids nodes are numbered k-t+1 .. k-1, their roots (value t) point to k
                    c = [(p + (k - t)) if p <= t - 1 else k for p in kids]
                    out.append(tuple(h + c + [k + 1]))
        return out
    return [list(f) for f in forests(n)]


def random_forest(n, rng, chain_bias=0.5, root_prob=0.15):
    par = [None] * n
    for i in range(n):
        par[i] = rng.choice([-1] + list(range(i))) if rng.random() > root_prob else -1
        if i and rng.random() < chain_bias:
            par[i] = i - 1
    kids = {i: [] for i in range(-1, n)}
    for i, p in enumerate(par):
        kids[p].append(i)
    order = []
    sys.setrecursionlimit(100000)

    def dfs(u):
        for v in kids[u]:
            dfs(v)
        if u >= 0:
            order.append(u)
    dfs(-1)
    num = {u: k + 1 for k, u in enumerate(order)}
    res = [0] * n
    for u in range(n):
        res[num[u] - 1] = num[par[u]] if par[u] >= 0 else n + 1
    return res


def nkids(par):
    n = len(par)
    k = [0] * (n + 2)
    for p in par:
        k[p] += 1
    return k


def min_sbnd(par):
    """columns that must start an H-supernode: those with != 1 children"""
    k = nkids(par)
    return [j for j in range(1, len(par) + 1) if k[j] != 1]


def sbnd_choices(par, rng, count):
    """a few admissible H-partitions: minimal, all columns, random supersets of the minimal one"""
    n = len(par)
    base = set(min_sbnd(par))
    out = [sorted(base), list(range(1, n + 1))]
    for _ in range(max(0, count - 2)):
        out.append(sorted(base | {j for j in range(1, n + 1) if rng.random() < 0.4}))
    uniq = []
    for s in out:
        if s not in uniq:
            uniq.append(s)
    return uniq[:count]


if __name__ == "__main__":
    for n in range(1, 8):
        fs = all_forests(n)
        ok = all(all(f[j] > j + 1 - 0 for j in range(n)) for f in fs)
        print(n, len(fs), len(set(map(tuple, fs))))
