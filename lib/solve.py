"""The triangular solves as sweeps over the supernodes (SluSolve.tla): model runs, and the records of the real ?gstrs / sp_?trsv
calls of a drv_api output stream (SvBegin / SvCall / SvEnd, recorded through --wrap of the dense kernels)."""
import json, os
import tlc

CONST = ("PartDef == <<1>>\n@@CONSTANT N = 1\nCONSTANT Part <- PartDef\nCONSTANT Shape = \"good\"")


def solve_records(path, cplx=False, tag=None, blas=0):
    """one record per ?gstrs call and per sp_?trsv call (nested ones included) with the kernel calls each made itself"""
    recs, stack = [], []
    with open(path) as f:
        for ln in f:
            if not ln.startswith('{"e":"Sv'):
                continue
            d = json.loads(ln)
            e, a = d["e"], d["a"]
            if e == "SvBegin":
                l = d.get("l") or []
                r = {"e": "Solve", "kind": a[0], "op": a[1] if a[0] == 0 else a[2], "uplo": a[1] if a[0] == 1 else 0, "diag": a[3], "nrhs": a[4], "ldb": a[5], "n": a[6],
                     "cplx": 1 if cplx else 0, "blas": blas, "sn": [l[i:i + 4] for i in range(0, len(l), 4)], "ev": [], "info": -999}
                if tag is not None:
                    r["tag"] = tag
                stack.append(r)
            elif e == "SvCall" and stack:
                stack[-1]["ev"].append((a + [0] * 8)[:8])
            elif e == "SvEnd" and stack:
                r = stack.pop()
                r["info"] = a[0]
                recs.append(r)
    return recs


def skip(r):
    """complex conjugate-transposed solves are a recorded known finding (F16 / F18: the 'C' branches of sp_c/ztrsv); not judged here"""
    return r["cplx"] == 1 and r["op"] == 2


def validate(workdir, name, recs, timeout=600):
    """-> (indices of rejected records, states, errors); records with huge structures are cut (TLC evaluates SnOK quadratically)"""
    use = [r for r in recs if not skip(r) and len(r["sn"]) <= 200]
    if not use:
        return [], 0, [], use
    bad, states, errors = tlc.validate_records(workdir, name, "SluSolveTrace", use, constants=CONST, timeout=timeout)
    return bad, states, errors, use


def model_runs(workdir, n=4, shapes=("good", "bad"), timeout=300):
    """SluSolve's machine on every composition of n columns into supernodes and every row structure; 'bad' must violate FinalBeforeUse"""
    tlc.stage(workdir)
    out = []

    def comps(k):
        if k == 0:
            return [[]]
        return [[f] + c for f in range(1, k + 1) for c in comps(k - f)]
    for sh in shapes:
        nn = n if sh == "good" else min(n, 3)       # ill-formed structures: 8^n x 8^n initial states at n = 4
        for ci, c in enumerate(comps(nn)):
            mod = "MCSolve_%s_%d" % (sh, ci)
            with open(os.path.join(workdir, mod + ".tla"), "w") as f:
                f.write("---- MODULE %s ----\nEXTENDS SluSolve\nPartDef == <<%s>>\n====\n" % (mod, ",".join(map(str, c))))
            cfg = os.path.join(workdir, mod + ".cfg")
            with open(cfg, "w") as f:
                f.write("CONSTANT N = %d\nCONSTANT Part <- PartDef\nCONSTANT Shape = \"%s\"\nSPECIFICATION SSpec\nINVARIANT FinalBeforeUse EmitsExpected AllSolved\n%sCHECK_DEADLOCK FALSE\n"
                        % (nn, sh, "PROPERTY STerminates\n" if sh == "good" else ""))
            out.append((sh, c, mod, cfg))
    return out


def check_models(ck, workdir, n=4):
    """TLC on SluSolve's machine: every composition of n columns into supernodes x every row structure x the four sweeps.
    Well-formed structures: FinalBeforeUse, EmitsExpected (machine = declarative call sequence), AllSolved, termination.
    Structures with rows on the wrong side of the supernode: FinalBeforeUse must be violated for some structure (sensitivity).
    -> False if the sensitivity part failed (the caller reports SELFTEST-FAIL)"""
    import common
    jobs = model_runs(workdir, n)

    def one(j):
        sh, c, mod, cfg = j
        return j, tlc.run(workdir, mod, cfg, workers=2, timeout=600)
    sens = 0
    for (sh, c, mod, cfg), r in common.pmap(one, jobs):
        ck.case("solvemodel:%s:%s" % (sh, c))
        ck.model(r["distinct"], r["generated"])
        if sh == "good":
            if tlc.inconclusive(r):
                ck.notes["solve_model_runs_not_decided"] = ck.notes.get("solve_model_runs_not_decided", 0) + 1
            elif not r["ok"]:
                ck.violation("solvemodel:%s" % c, "SluSolve (supernodes of %s columns, well-formed structures) violates %s" % (c, r["violated"] or r["errors"][:2]))
        elif "FinalBeforeUse" in (r.get("violated") or []) or "FinalBeforeUse" in str(r.get("violated")):
            sens += 1
    ck.notes["solve_model_ill_formed_structures_rejected"] = "%d of %d compositions" % (sens, sum(1 for j in jobs if j[0] == "bad"))
    return sens >= 1
