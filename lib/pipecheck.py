"""Pieces shared by the pipeline-based checks (C01..C05, C09): exhaustive SluPipe runs and
validation of recorded executions."""
import os, json
import common, tlc, pipe, forests


def run_mc(ck, plan, timeout):
    wd = os.path.join(ck.dir, "mc")
    tlc.stage(wd)

    def one(a):
        i, (f, sb, P, ps, rl, ms, live) = a
        r = tlc.pipe_mc(wd, "m%d" % i, f, sb, P, ps, rl, ms, liveness=live, timeout=timeout)
        return a, r
    unfinished = 0
    for (i, item), r in common.pmap(one, list(enumerate(plan))):
        f, sb, P, ps, rl, ms, live = item
        key = "mc:%s:%s:P%d:w%d:r%d:m%d" % (f, sb, P, ps, rl, ms)
        ck.model(r["distinct"], r["generated"])
        if r["timeout"]:
            unfinished += 1
            continue
        ck.case(key, sample={"forest": f, "sbnd": sb, "P": P, "panel": ps, "relax": rl, "maxsuper": ms,
                             "distinct_states": r["distinct"], "liveness": live} if i < 2 else None)
        if not r["ok"]:
            what = r["violated"] or r["errors"][:2]
            open(os.path.join(ck.dir, "mc_fail_%d.out" % i), "w").write(r["out"][-20000:])
            ck.violation(key, "model SluPipe violates %s for forest %s (P=%d, panel %d, relax %d, maxsuper %d)" % (what, f, P, ps, rl, ms),
                         {"tlc_output": os.path.join(ck.dir, "mc_fail_%d.out" % i)})
    ck.notes["mc_runs"] = len(plan)
    ck.notes["mc_unfinished_within_timeout"] = unfinished




def run_traces(ck, jobs, out, precs=("d",), variant="verif", check_id=None, keep_failed=True, judge=None, accept_abort=False):
    """Run the jobs on the real library, validate every recorded factorization against SluPipeTrace.
    judge(job, cfg, result_record) may return a string describing a property-specific violation."""
    check_id = check_id or ck.pid
    nev = 0
    for prec in precs:
        pj = [dict(j, id=j["id"] + prec, out=j["out"].replace(".ndjson", "_%s.ndjson" % prec)) for j in jobs] if len(precs) > 1 else jobs
        status = pipe.run_jobs(pj, out, prec=prec, variant=variant)
        results = pipe.validate(pj, status, os.path.join(ck.dir, "tlc"))
        for j, r in results:
            st = status.get(j["id"], "missing")
            key = "trace:%s:" % prec + pipe.job_line({k: v for k, v in j.items() if k not in ("out", "id", "timeout")})
            if st == "exit:42" and accept_abort:
                ck.case(key)
                ck.notes["stopped_by_library_diagnostic"] = ck.notes.get("stopped_by_library_diagnostic", 0) + 1
                continue
            if st != "ok":
                ck.case(key)
                ck.violation(key, "real factorization did not complete normally (%s): %s" % (st, pipe.job_line(j)), {"job": j, "precision": prec})
                continue
            cfg, res, nl, kinds = pipe.trace_info(j["out"])
            if r:
                ck.model(r.get("distinct", 0), r.get("generated", 0))     # states TLC explored while validating this trace
            if cfg.get("overflow"):
                ck.notes["traces_truncated_inconclusive"] = ck.notes.get("traces_truncated_inconclusive", 0) + 1
                continue
            nev += nl
            ck.case(key, sample={"job": pipe.job_line({k: v for k, v in j.items() if k != "out"}), "precision": prec, "events": nl,
                                 "etree": cfg["etree"][:12], "info": res.get("info") if res else None} if len(ck.cov["samples"]) < 5 else None)
            msg = None
            if tlc.inconclusive(r):
                ck.notes["traces_not_decided_by_TLC_within_the_time_limit"] = ck.notes.get("traces_not_decided_by_TLC_within_the_time_limit", 0) + 1
                continue
            if not r["ok"]:
                msg = "trace of the real code rejected: " + pipe.explain(r, j["out"])
            elif judge:
                msg = judge(j, cfg, res)
            if msg:
                ck.violation(key, msg + " | " + pipe.job_line(j), {"job": j, "precision": prec, "trace": j["out"],
                             "revalidate": "bin/check %s --replay %s" % (check_id, j["out"])})
            else:
                ck.traces()
                try:
                    os.remove(j["out"])
                except OSError:
                    pass
    ck.notes["trace_events_validated"] = ck.notes.get("trace_events_validated", 0) + nev


def replay(path):
    """Re-validate a kept trace file."""
    wd = os.path.join(common.RUN, "replay")
    os.makedirs(wd, exist_ok=True)
    r = tlc.pipe_trace(wd, "replay", path)
    print("accepted" if r["ok"] else "REJECTED: " + pipe.explain(r, path))
    return 0 if r["ok"] else 1


def run_repo_tests(ck, runs, perturb=30):
    """The repository's own test programs (TESTING/p?drive.c, unmodified) as trace generators: every
    factorization they perform is recorded through the hooks and validated against SluPipeTrace.
    runs = list of (precision, argument list)."""
    out = os.path.join(ck.dir, "repotests")
    os.makedirs(out, exist_ok=True)
    wd = os.path.join(ck.dir, "tlc")
    tlc.stage(wd)
    total = ok = 0
    for k, run in enumerate(runs):
        prec, args = run[0], run[1]
        rc, stream = pipe.run_repo_test(prec, args, out, "t%d" % k, perturb=perturb, stdin_path=(run[2] if len(run) > 2 else None))
        key = "repotest:p%stest %s" % (prec, " ".join(args))
        if rc != 0 or not os.path.exists(stream):
            ck.case(key)
            ck.violation(key, "the repository's test driver p%stest %s ended with status %s when run with the hooks on" % (prec, " ".join(args), rc))
            continue
        segs = pipe.prepare(stream)
        if len(segs) == 1 and segs[0] == stream:
            segs = [stream]

        def one(f):
            return f, tlc.pipe_trace(wd, "rt%d_%s" % (k, os.path.basename(f).replace(".", "_")), f)
        for f, r in common.pmap(one, segs):
            total += 1
            ck.model(r.get("distinct", 0), r.get("generated", 0))
            ck.case(key + ":" + os.path.basename(f))
            if r["ok"]:
                ok += 1
                ck.traces()
                try:
                    os.remove(f)
                except OSError:
                    pass
            else:
                ck.violation(key + ":seg", "a factorization performed by p%stest %s is not a behaviour of SluPipe: %s" % (prec, " ".join(args), pipe.explain(r, f)),
                             {"trace": f})
    ck.notes["repository_test_factorizations_validated"] = ck.notes.get("repository_test_factorizations_validated", 0) + ok
    ck.notes["repository_test_factorizations_recorded"] = ck.notes.get("repository_test_factorizations_recorded", 0) + total


def run_sched_replay(ck, plan, simulate_plan=(), timeout=900):
    """SluSched behaviours replayed into the real scheduling layer (drv_sched): for every forest of the plan
    TLC enumerates the scheduler's state graph (all interleavings of loop test / scheduler section / mark /
    finish), checks the layer's invariants on every state, and prints one test per transition; the harness executes
    each on ParallelInit / pxgstrf_scheduler / pxgstrf_mark_busy_descends and compares outputs and complete state.
    plan: (par, sbnd, P, panel, relax, maxsuper, joinrule); simulate_plan: the same plus (num, depth) for larger forests."""
    import sched
    wd = os.path.join(ck.dir, "sched")
    os.makedirs(wd, exist_ok=True)
    tlc.stage(wd)
    sched.driver()

    def one(a):
        i, item, sim = a
        par, sbnd, P, ps, rl, ms, jr = item[:7]
        name = "s%d" % i
        (tests, pst), r, k = (None, None), None, 0
        res = sched.generate(wd, name, par, sbnd, P, ps, rl, ms, joinrule=jr, maxidle=(12 if sim else 1),
                             simulate=(item[7] if sim else None), depth=(item[8] if sim else None), timeout=timeout)
        if res[0] is None:
            return item, res[1], 0, None, None, None, ""
        (tests, pst), r, k = res
        if not tests or pst is None:
            return item, r, 0, None, None, None, "no tests printed" if not sim else "sim-none"
        tp = os.path.join(wd, name + ".tests")
        sched.write_tests(tp, par, P, ps, rl, tests, pst[0], pst[1], maxsuper=ms)
        rc, summ, fails, err = sched.replay(tp, os.path.join(wd, name + ".out"))
        if summ and not fails:
            os.remove(tp)
        return item, r, k, rc, summ, fails, err
    items = [(i, it, False) for i, it in enumerate(plan)] + [(1000 + i, it, True) for i, it in enumerate(simulate_plan)]
    tot_t = tot_s = 0
    for item, r, k, rc, summ, fails, err in common.pmap(one, items):
        key = "sched:%s:P%d:ps%d:rl%d:ms%d:%s" % (item[0], item[2], item[3], item[4], item[5], item[6])
        if r is not None:
            ck.model(r["distinct"], r["generated"])
        if r is None or r["timeout"]:
            ck.notes["sched_model_timeouts"] = ck.notes.get("sched_model_timeouts", 0) + 1
            continue
        ck.case(key)
        if not r["ok"]:
            ck.violation(key, "SluSched violates %s for forest %s" % (r["violated"] or r["errors"][:2], item[0]))
            continue
        if summ is None and err == "sim-none":
            ck.notes["sched_simulations_without_complete_behaviour"] = ck.notes.get("sched_simulations_without_complete_behaviour", 0) + 1
            continue
        if summ is None:
            ck.violation(key, "replay harness did not finish (exit %s): %s" % (rc, err))
            continue
        tot_t += summ["tests"]
        tot_s += summ["steps"]
        if fails:
            f = fails[0]
            ck.violation(key, "replay of a SluSched behaviour into the real scheduling layer diverges: %d of %d tests; first: test %s step %s: %s: model %s, code %s "
                         "(forest %s, P=%d panel=%d relax=%d maxsuper=%d)" % (len(fails), summ["tests"], f["test"], f["step"], f["what"], f["expected"], f["got"],
                                                                               item[0], item[2], item[3], item[4], item[5]),
                         {"forest": item[0], "tests": os.path.join(wd, "s*.tests")})
    ck.notes["sched_replay_tests"] = ck.notes.get("sched_replay_tests", 0) + tot_t
    ck.notes["sched_replay_steps"] = ck.notes.get("sched_replay_steps", 0) + tot_s
    ck.traces(tot_t)
