"""Shared driver of the history-based checks: TLC enumerates legal call histories over an
alphabet (SluApi), the harness executes them on the real library (drv_api), TLC validates the
observed records (SluApiTrace) and the embedded factorization events (SluPipeTrace)."""
import os, json, random
import common, api, tlc, pipe, solve

# which properties a failed obligation clause speaks about (used to attribute a rejection)
CLAUSE_PROPS = {
    "xerbla": {"C15", "C07", "C01"}, "threads": {"C04", "C17"}, "A unchanged": {"C01", "C08", "C11"},
    "B padding": {"C01"}, "perm_c bijection": {"C10", "C09"}, "perm_r bijection": {"C09"},
    "factor structure": {"C09"}, "reconstruction bound": {"C02", "C01", "C08"}, "multiplier bound": {"C02", "C08"},
    "residual bound": {"C01", "C08"}, "B unchanged on singular": {"C06"}, "A scaling relation": {"C11", "C07"},
    "B scaling relation": {"C11", "C07"}, "query info>n": {"C14"}, "query estimate>0": {"C14"},
    "query X untouched": {"C14"}, "query retains memory": {"C17"}, "query clobbers existing factors / permutations": {"C14", "C08", "C18", "C17"}, "FACTORED modified A": {"C08"},
    "FACTORED modified perms": {"C08"}, "FACTORED modified L/U": {"C08"}, "FACTORED retains memory": {"C17"},
    "DOFACT equed": {"C11", "C07"}, "refact retains memory": {"C17"}, "factors inside workspace": {"C14"},
    "X untouched on singular": {"C06"}, "info=n+1 iff rcond<eps": {"C12"},
    "backward error of X (original system)": {"C07", "C08", "C01"}, "berr truthful": {"C13"}, "ferr dominates": {"C13"},
    "rcond sandwich": {"C12"}, "pivot growth": {"C12"}, "diagonal pivots (perm_r = perm_c)": {"C16"},
    # the computational routines called directly (sessions)
    "AC is the column-permuted view of A": {"C10", "C08"}, "etree postordered / ordering changed by a postorder only": {"C10", "C08"},
    "init touched perm_r / options": {"C08", "C18"}, "init retains memory": {"C17"}, "guard zones of the workspace": {"C14"},
    "pivot reuse not honoured": {"C08"}, "solve info": {"C08", "C01", "C07"}, "solve modified A / L / U / permutations": {"C08"},
    "solve retains memory": {"C17"}, "session release does not return the session's blocks": {"C17"},
}


def feature(h):
    """what a history exercises, for stratified sampling: storage of the matrix x (fact, memory mode, refact, trans class) of its expert calls"""
    st = h[0].get("stype", "NC") if h else "NC"
    f = set()
    for c in h:
        if c["call"] == "gssvx":
            f.add((st, c.get("fact"), c.get("lw"), bool(c.get("refact")), c.get("trans") != "N"))
        elif c["call"] == "gssv":
            f.add((st, "gssv"))
    return tuple(sorted(f, key=str))


def stratified_sample(hs, count, rng, feat=feature):
    """round-robin over the feature classes so that rare combinations (row-wise + FACTORED, query + refact, ...) are always present"""
    if len(hs) <= count:
        return list(hs)
    buckets = {}
    for h in hs:
        buckets.setdefault(feat(h), []).append(h)
    keys = sorted(buckets, key=str)
    rng.shuffle(keys)
    for k in keys:
        rng.shuffle(buckets[k])
    out = []
    while len(out) < count:
        progressed = False
        for k in keys:
            if buckets[k] and len(out) < count:
                out.append(buckets[k].pop())
                progressed = True
        if not progressed:
            break
    return out


def atoms(h):
    """per-call features of a history: (storage, call kind, fact, memory mode, refact)"""
    st = h[0].get("stype", "NC") if h else "NC"
    out = set()
    for c in h:
        if c["call"] == "gssvx":
            out.add((st, "gssvx", c.get("fact"), c.get("lw"), bool(c.get("refact"))))
            out.add((st, "trans", c.get("trans")))
        elif c["call"] == "gssv":
            out.add((st, "gssv"))
        elif c["call"] == "mat" and c.get("sing"):
            out.add((st, "singular"))
        elif c["call"] == "sinit":
            out.add((st, "sinit", bool(c.get("refact")), bool(c.get("usepr")), c.get("lw")))
        elif c["call"] in ("ssolve", "scon"):
            out.add((st, c["call"], c.get("trans") or c.get("norm")))
        elif c["call"] in ("sdropac", "sfinal", "sfactor"):
            out.add((st, c["call"]))
    return out


# checks whose property covers the caller's workspace: their histories also validate the Stk* events against SluStack
STACK_PROPS = {"C14", "C18", "C08"}
# checks whose property covers a solve: every ?gstrs / sp_?trsv call of their histories is validated against SluSolve (which kernel on which
# block of L and which part of B, in which order)
SOLVE_PROPS = {"C01", "C07", "C08", "C12", "C13"}
# checks whose histories alternate between the library's own dense kernels and the USE_VENDOR_BLAS configuration, and use small 2-D blocking
# cut-offs in a third of their scripts (the drivers' solve properties; the factorization itself is covered in both configurations by C02)
VENDOR_PROPS = {"C01", "C07"}
RHS_SHAPES = ("one", "multi", "multi_pad", "zero")


def covering_sample(hs, count, rng, precs=("d", "s", "z", "c"), scales=(None,), shapes=(None,)):
    """greedy cover: (history, precision[, scaling of the generated matrix][, shape of the right-hand sides]) chosen so that every
    per-call feature is exercised in every precision -- and, where the outcome depends on it, with every kind of bad scaling
    (none / row / col / both / colonly / rowonly: decides the equed outcome) and every right-hand-side shape (one column, several
    tight, several with padded leading dimensions, none) -- as evenly as the budget allows: a defect in one precision's copy of one
    driver path, in one equed branch of it, or in one stride of a solve needs exactly one such combination"""
    cov = {}
    pool = list(hs)
    rng.shuffle(pool)
    at = [atoms(h) for h in pool]
    used = set()
    out = []

    def gain(keys, p):
        return sum(1.0 / (1 + cov.get((x, p), 0)) ** 2 for x in keys)
    for _ in range(min(count, len(pool))):
        best, bs = None, -1.0
        for p in rng.sample(list(precs), len(precs)):
            for i, a in enumerate(at):
                if i in used or not a:
                    continue
                sc = gain(a, p)
                if sc > bs:
                    best, bs = (i, p), sc
        if best is None:
            break
        i, p = best
        a = at[i]
        used.add(i)
        keys = set(a)
        pick_sc = pick_sh = None
        if scales != (None,):
            cand = {sc: {(x[0], "scale", sc, t[2] != "N") for x in a if x[1] == "gssvx" and x[2] in ("EQUILIBRATE", "FACTORED") for t in a if t[1] == "trans"}
                    for sc in scales}
            pick_sc = max(rng.sample(list(scales), len(scales)), key=lambda sc: gain(cand[sc], p))
            keys |= cand[pick_sc]
        if shapes != (None,):
            cand = {sh: {(x[0], x[1], "rhs", sh) for x in a if x[1] in ("gssv", "gssvx", "ssolve")} for sh in shapes}
            pick_sh = max(rng.sample(list(shapes), len(shapes)), key=lambda sh: gain(cand[sh], p))
            keys |= cand[pick_sh]
        for x in keys:
            cov[(x, p)] = cov.get((x, p), 0) + 1
        out.append((pool[i], p) if (scales == (None,) and shapes == (None,)) else (pool[i], p, pick_sc, pick_sh))
    return out


def run_histories(ck, alphabet, depth, count, rng, precs=("d",), threads=(1, 2, 4), nmax=24, pert=None,
                  validate_pipe=True, variant="verif", hist_filter=None, script_kw=None, extra_judge=None, enum_timeout=600, simulate=None, tag=""):
    wd = os.path.join(ck.dir, "api" + tag)
    os.makedirs(wd, exist_ok=True)
    # depth >= 5: the complete enumeration is millions of histories (tens of GB once parsed): a large random sample of TLC behaviours instead
    hs, r = api.enumerate_histories(wd, depth, alphabet, name=ck.pid + tag, timeout=enum_timeout, simulate=simulate or (4000 if depth >= 5 and not tag else None))
    ck.model(r["distinct"], r["generated"])
    hs = [h for h in hs if h and h[0]["call"] == "mat" and (hist_filter is None or hist_filter(h))]
    ck.notes["histories_enumerated" + tag] = len(hs)
    if not hs:
        ck.violation("enum", "TLC enumerated no history: %s" % r["errors"][:2])
        return
    kw = dict(script_kw or {})
    kw["twod"] = ck.pid in VENDOR_PROPS
    use_scales = kw.get("scale_for_equil", True) and not kw.get("symmetric")
    sample = covering_sample(hs, count, rng, precs, scales=("none", "row", "col", "both", "colonly", "rowonly") if use_scales else ("none",), shapes=RHS_SHAPES)
    items = []
    for i, smp in enumerate(sample):
        h, prec = smp[0], smp[1]
        if use_scales:
            kw["scale"] = smp[2]
        kw["rhs"] = smp[3]
        if prec in ("c", "z") and (ck.pid != "C07" or (i // len(precs)) % 3 != 0):
            # complex CONJ is a recorded known finding (F16): C07 keeps a few such histories to re-confirm it,
            # and let the others exercise the transposed solve instead so that the rest of the history is validated
            h = [dict(c, trans="T") if c.get("trans") == "C" else c for c in h]
        items.append((i, h, prec, api.script_of(h, rng, nmax=nmax, threads=threads, pert=pert, **kw)))
    # every other history runs in the configuration of the repository's own CMake build (USE_VENDOR_BLAS: the supernodal kernels of the
    # factorization and of the solves go to the BLAS -- other branches of 33 source files than with the library's own dense kernels)
    def var_of(i):
        return "vendor" if (variant == "verif" and ck.pid in VENDOR_PROPS and i % 2 == 1) else variant
    for p in set(precs):
        api.driver(p, variant)     # build before the parallel phase
        if variant == "verif" and ck.pid in VENDOR_PROPS:
            api.driver(p, "vendor")
    ck.notes["histories_in_the_USE_VENDOR_BLAS_configuration" + tag] = sum(1 for a in items if var_of(a[0]) == "vendor")
    tlc.stage(wd)

    def one(a):
        i, h, prec, txt = a
        st, op, err = api.run_script(txt, wd, "h%d" % i, prec=prec, variant=var_of(i))
        v = api.validate_calls(wd, "h%d" % i, op) if st == "exit:0" else None
        if v is not None and tlc.inconclusive(v):
            v = api.validate_calls(wd, "h%dt" % i, op, timeout=600)       # the tool did not decide (load): once more, longer limit
        pv = []
        if validate_pipe and st == "exit:0":
            for k, f in enumerate(api.split_factorizations(op)):
                pr = tlc.pipe_trace(wd, "h%d_%d" % (i, k), f)
                if tlc.inconclusive(pr):
                    pr = tlc.pipe_trace(wd, "h%d_%dt" % (i, k), f, timeout=900)
                pv.append((f, pr))
        sr = None
        if st == "exit:0" and ck.pid in STACK_PROPS:
            sr, _ = api.validate_stack(wd, "h%d" % i, op)
        if st == "exit:0" and ck.pid in SOLVE_PROPS:
            svrecs.append((i, solve.solve_records(op, cplx=prec in "cz", tag=i, blas=1 if var_of(i) == "vendor" else 0)))
        return i, h, prec, txt, st, v, err, pv, sr
    svrecs = []
    results = list(common.pmap(one, items))
    if svrecs:
        judge_solves(ck, wd, svrecs, {a[0]: a for a in items})
    for i, h, prec, txt, st, v, err, pv, sr in results:
        key = "hist:%s:%s" % (prec, json.dumps(h, sort_keys=True))
        if sr is not None and not tlc.inconclusive(sr):
            ck.model(sr.get("distinct", 0), sr.get("generated", 0))
            ck.notes["stack_events_validated"] = ck.notes.get("stack_events_validated", 0) + len(sr["events"])
            if not sr["ok"]:
                rl = sr["rejected_line"]
                ck.violation("stack:" + key, "precision %s: the caller's workspace stack left SluStack (%s) at event %s: %s after %s; history %s" % (
                    prec, sr["violated"] or "step not allowed", rl, sr["events"][rl - 1] if rl else "?", sr["events"][rl - 2] if rl and rl > 1 else "start", json.dumps(h)),
                    {"script": txt, "precision": prec})
        ck.case(key, sample={"precision": prec, "history": h, "script": txt.splitlines()} if len(ck.cov["samples"]) < 3 else None)
        if st != "exit:0":
            ck.violation(key, "history did not run to completion (%s): %s | stderr: %s" % (st, json.dumps(h), err[-300:]),
                         {"script": txt, "precision": prec})
            continue
        if tlc.inconclusive(v):
            ck.notes["histories_not_decided_by_TLC_within_the_time_limit"] = ck.notes.get("histories_not_decided_by_TLC_within_the_time_limit", 0) + 1
        elif not v["ok"]:
            rl = v["rejected_line"]
            clauses = api.diagnose(v["recs"][rl - 1]) if rl and rl <= len(v["recs"]) else []
            mine = [c for c in clauses if ck.pid in CLAUSE_PROPS.get(c, {ck.pid})]
            if clauses and not mine:
                ck.notes.setdefault("rejections_about_other_properties", []).append(clauses)
            else:
                rec = v["recs"][rl - 1] if rl and rl <= len(v["recs"]) else None
                ck.violation("api:%s:%s" % (rec.get("call") if rec else "?", "+".join(mine or clauses) or "no-step"),
                             "precision %s: call record %s of the history is not allowed by SluApi: failed %s; record %s; history %s" % (
                                 prec, rl, mine or clauses or v["errors"][:2], json.dumps(rec)[:700], json.dumps(h)),
                             {"script": txt, "precision": prec, "record": rec})
        else:
            ck.traces()
            if extra_judge:
                msg = extra_judge(h, v["recs"])
                if msg:
                    ck.violation(key, msg, {"script": txt, "precision": prec})
        for f, pr in pv:
            if tlc.inconclusive(pr):
                ck.notes["traces_not_decided_by_TLC_within_the_time_limit"] = ck.notes.get("traces_not_decided_by_TLC_within_the_time_limit", 0) + 1
                continue
            if pr["ok"]:
                ck.traces()
                ck.notes["factorization_traces_validated"] = ck.notes.get("factorization_traces_validated", 0) + 1
                try:
                    os.remove(f)
                except OSError:
                    pass
            else:
                ck.violation(key + ":pipe", "factorization inside the history rejected by SluPipeTrace: " + pipe.explain(pr, f),
                             {"script": txt, "trace": f})


def judge_solves(ck, wd, svrecs, items):
    """every recorded ?gstrs / sp_?trsv call of the executed histories against SluSolve!SolveOK (TLC, chunks in parallel)"""
    allr = [r for _, rs in sorted(svrecs, key=lambda x: x[0]) for r in rs]
    use = [r for r in allr if not solve.skip(r) and len(r["sn"]) <= 200]
    ck.notes["solve_calls_recorded"] = ck.notes.get("solve_calls_recorded", 0) + len(allr)
    ck.notes["solve_calls_skipped_complex_conjugate_known_finding_F16"] = ck.notes.get("solve_calls_skipped_complex_conjugate_known_finding_F16", 0) + sum(1 for r in allr if solve.skip(r))
    if not use:
        return
    nch = min(common.NCPU, max(1, len(use) // 400))
    chunks = [use[k::nch] for k in range(nch)]

    def one(a):
        k, ch = a
        bad, states, errors, _ = solve.validate(wd, "sv%d" % k, ch)
        if errors:                                  # the tool did not decide (load): once more, longer limit
            bad, states, errors, _ = solve.validate(wd, "sv%dt" % k, ch, timeout=1200)
        return ch, bad, states, errors
    nbad = 0
    for ch, bad, states, errors in common.pmap(one, list(enumerate(chunks))):
        ck.model(states, states)
        if errors:
            ck.notes["solve_records_not_decided_by_TLC"] = ck.notes.get("solve_records_not_decided_by_TLC", 0) + len(ch)
            continue
        ck.notes["solve_calls_validated"] = ck.notes.get("solve_calls_validated", 0) + len(ch) - len(bad)
        for b in bad:
            r = ch[b]
            nbad += 1
            if nbad > 12:
                continue
            it = items.get(r.get("tag"))
            ck.violation("solve:%s:%d:%d:%d" % ("gstrs" if r["kind"] == 0 else "trsv", r["op"], r["uplo"], r.get("tag", -1)),
                         "precision %s: a real %s call is not the sweep of SluSolve (kernel, dimensions, block of L or part of the right-hand sides differ): %s" % (
                             it[2] if it else "?", "?gstrs" if r["kind"] == 0 else "sp_?trsv", json.dumps(r)[:900]),
                         {"script": it[3] if it else "", "precision": it[2] if it else "", "record": r})


SESSION_ALPHABET = ["mat", "onemat", "vals", "ses", "destroy", "trans", "user", "scon"]


def run_sessions(ck, depth, count, rng, precs=("d",), threads=(1, 2, 4), nmax=24, pert=None, hist_filter=None, simulate=None, extra=(), validate_pipe=True):
    """histories over the computational routines called directly, as EXAMPLE/pdrepeat.c does: p?gstrf_init (first / refact / refact+usepr,
    system memory or the caller's workspace), p?gstrf, ?gstrs (N/T/C), ?gscon (1/I), Destroy_CompCol_Permuted, pxgstrf_finalize, the
    destroy routines, new values in between; one matrix per history; enumerated exhaustively by TLC to the given depth"""
    def flt(h):
        return any(c["call"] == "sfactor" for c in h) and (hist_filter is None or hist_filter(h))
    run_histories(ck, SESSION_ALPHABET + list(extra), depth, count, rng, precs=precs, threads=threads, nmax=nmax, pert=pert, hist_filter=flt,
                  script_kw={"scale_for_equil": False}, simulate=simulate, tag="_ses", validate_pipe=validate_pipe)
