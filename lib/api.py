"""Call histories: enumeration by TLC (SluApi), execution on the real library (drv_api),
validation of the observed records by TLC (SluApiTrace), and of the embedded
factorization events (SluPipeTrace)."""
import os, json, re, subprocess, random, shutil
import build, tlc, pipe
from common import pmap, NCPU

PRECS = {"s": 1, "d": 2, "c": 3, "z": 4}


def driver(prec="d", variant="verif"):
    return build.harness("drv_api_" + prec, ["drv_api.c", "verif_rt.c", "verif_wrap_lacon.c"], variant=variant, defines=["PREC=%d" % PRECS[prec]],
                         wrap=["xerbla_", "malloc", "free", "calloc", "pthread_mutex_unlock", "slacon_", "dlacon_", "clacon_", "zlacon_", "sp_strsv", "sp_dtrsv", "sp_ctrsv", "sp_ztrsv", "sgscon", "dgscon", "cgscon", "zgscon",
                               "sgsrfs", "dgsrfs", "cgsrfs", "zgsrfs", "sgstrs", "dgstrs", "cgstrs", "zgstrs", "sp_sgemv", "sp_dgemv", "sp_cgemv", "sp_zgemv"]
                         + [p + k for p in "sdcz" for k in ("lsolve", "usolve", "matvec", "trsv_", "trsm_", "gemm_", "gemv_")])


# ---------------------------------------------------------------- history enumeration
def enumerate_histories(workdir, maxlen, alphabet, timeout=600, simulate=None, name="H"):
    """All legal histories of length maxlen over the alphabet (or a random sample with -simulate)."""
    tlc.stage(workdir)
    mod = "MCApi_" + name
    with open(os.path.join(workdir, mod + ".tla"), "w") as f:
        f.write("---- MODULE %s ----\nEXTENDS SluApi\nAlphaDef == {%s}\n====\n" % (mod, ",".join('"%s"' % a for a in alphabet)))
    cfg = os.path.join(workdir, mod + ".cfg")
    with open(cfg, "w") as f:
        f.write("CONSTANT MaxLen = %d\nCONSTANT Alphabet <- AlphaDef\nSPECIFICATION Spec\nINVARIANT TypeOK\nCONSTRAINT Emit\nCHECK_DEADLOCK FALSE\n" % maxlen)
    r = tlc.run(workdir, mod, cfg, workers=1, timeout=timeout, simulate=simulate, depth=maxlen + 1 if simulate else None, xmx="3g")
    hists = []
    for m in re.finditer(r'<<\s*"HIST",\s*(<<.*?>>)\s*>>\n', r["out"], re.S):
        hists.append(parse_tla_seq(m.group(1)))
    seen, uniq = set(), []
    for h in hists:
        k = json.dumps(h, sort_keys=True)
        if k not in seen:
            seen.add(k)
            uniq.append(h)
    return uniq, r


def parse_tla_seq(txt):
    """<<[call |-> "gssvx", fact |-> "DOFACT", refact |-> FALSE, ...], ...>> -> list of dicts"""
    out = []
    for rec in re.findall(r"\[(.*?)\]", txt, re.S):
        d = {}
        for kv in rec.split(","):
            if "|->" not in kv:
                continue
            k, v = kv.split("|->")
            k, v = k.strip(), v.strip()
            if v in ("TRUE", "FALSE"):
                d[k] = (v == "TRUE")
            elif v.startswith('"'):
                d[k] = v.strip('"')
            else:
                try:
                    d[k] = int(v)
                except ValueError:
                    d[k] = v
        out.append(d)
    return out


# ---------------------------------------------------------------- history -> script
def script_of(hist, rng, nmax=24, threads=(1, 2, 4), twod=False, ienv=None, scale_for_equil=True, pert=None, track=True, matgen=None, symmetric=False, tight=0, scale=None, rhs=None):
    # shape of the right-hand sides: one | multi (2..3 columns, tight) | multi_pad (2..3 columns, leading dimensions > n) | zero
    def rhs_shape(default_n, default_pad, default_padx):
        if rhs == "one":
            return 1, default_pad, default_padx
        if rhs == "multi":
            return rng.choice([2, 3]), 0, 0
        if rhs == "multi_pad":
            return rng.choice([2, 3]), rng.choice([1, 3]), rng.choice([1, 2])
        if rhs == "zero":
            return 0, default_pad, default_padx
        return default_n, default_pad, default_padx
    lines = []
    ps, rl, ms = ienv or (rng.choice([1, 2, 4, 8]), rng.choice([1, 2, 3, 4, 6] if symmetric else [1, 2, 4]), rng.choice([2, 4, 8]))
    if twod and not symmetric and rng.random() < 0.34:
        # small 2-D blocking cut-offs (sp_ienv 4 / 5) and wide supernodes: the 2-D panel update, which ordinary sizes never select on small matrices
        lines.append("ienv p1=%d p2=%d p3=%d p4=%d p5=%d" % (ps, rl, 8, rng.choice([2, 3, 4]), rng.choice([2, 3])))
    else:
        lines.append("ienv p1=%d p2=%d p3=%d" % (ps, rl, ms))
    if track:
        lines.append("track on=1")
    if pert:
        lines.append("perturb pct=%d seed=%d" % (pert, rng.randrange(1, 10 ** 6)))
    for ci, c in enumerate(hist):
        if c["call"] == "mat":
            n = rng.randint(3, nmax)
            gen = matgen or rng.choice(["random", "random", "banded", "arrow", "grid"])
            scale_ = scale or (rng.choice(["none", "row", "col", "both"]) if scale_for_equil else "none")
            ln = "mat gen=%s n=%d seed=%d stype=%s scale=%s vstyle=%d" % (gen, n, rng.randrange(1, 10 ** 6), c["stype"], scale_, rng.choice([0, 0, 1]) if gen != "random" else 0)
            if gen == "random":
                ln += " dens=%d fulldiag=%d" % (rng.choice([150, 300, 500]), rng.choice([0, 1]))
            elif gen == "banded":
                ln += " kl=%d ku=%d" % (rng.randint(0, 3), rng.randint(0, 3))
            elif gen == "arrow":
                ln += " last=%d" % rng.choice([0, 1])
            else:
                k = rng.randint(2, max(2, int(nmax ** 0.5)))
                ln = ln.replace("n=%d" % n, "n=%d k=%d" % (k * k, k))
            if c.get("sing"):
                ln += " zc=%d" % rng.randrange(0, 3)
            if symmetric:     # full diagonal, strictly diagonally dominant by rows and columns, ordering on A'+A
                ln = ln.replace("fulldiag=0", "fulldiag=1")
                ln = " ".join(t for t in ln.split() if not t.startswith("vstyle=") and not t.startswith("scale=")) + " vstyle=%d scale=none" % rng.choice([1, 1, 4])
                if gen == "arrow" or gen == "banded" or gen == "grid" or gen == "random":
                    pass
            lines.append(ln)
            # symmetric mode: the reserve is computed for whatever ordering the caller passes; minimum degree on A'+A mostly, the
            # natural one as well (small grids in natural order give relaxed supernodes made of several Cholesky supernodes)
            lines.append("permc order=%d" % (rng.choice([2, 2, -1]) if symmetric else rng.choice([-1, 0, 1, 2, 3])))
        elif c["call"] == "vals":
            # when a later call asks for the old row order: in half of the cases one old pivot entry becomes exactly zero (the request must fall back)
            later_usepr = any(d.get("usepr") for d in hist[ci + 1:])
            lines.append("vals seed=%d%s" % (rng.randrange(1, 10 ** 6), " zp=%d" % rng.choice([1, 2]) if later_usepr and rng.random() < 0.7 else ""))
        elif c["call"] == "gssv":
            nr, pd, _ = rhs_shape(rng.choice([0, 1, 2, 3]), rng.choice([0, 0, 3]), 0)
            lines.append("gssv P=%d nrhs=%d pad=%d seed=%d" % (rng.choice(threads), nr, pd, rng.randrange(1, 10 ** 6)))
        elif c["call"] == "gssvx":
            lw = {"sys": 0, "user": 16 << 20, "query": -1}[c["lw"]]
            if c["lw"] == "user" and tight:
                lw = "auto%d" % tight      # a workspace sized from the library's own estimate
            nr, pd, px = rhs_shape(rng.choice([1, 1, 2, 3]), rng.choice([0, 0, 2]), rng.choice([0, 0, 1]))
            if nr == 0 and c["lw"] != "query":
                nr = 1          # the expert-driver records need a solution to judge; nrhs = 0 is exercised through the simple driver and C15
            lines.append("gssvx P=%d fact=%s refact=%d usepr=%d trans=%s lwork=%s nrhs=%d pad=%d padx=%d seed=%d u=%s%s" % (
                rng.choice(threads), c["fact"], int(c["refact"]), int(c["usepr"]), c["trans"], lw, nr,
                pd, px, rng.randrange(1, 10 ** 6),
                "0.0" if symmetric else rng.choice(["1.0", "1.0", "0.5", "0.1"]), " sym=1" if symmetric else "")
                + (" woff=%d" % rng.choice([0, 0, 4, 8, 12]) if c["lw"] == "user" and not c["refact"] and c["fact"] != "FACTORED" else ""))
        elif c["call"] == "destroy":
            lines.append("destroy")
        elif c["call"] == "sinit":
            # first factorization of a session with partial pivoting; a re-factorization that asks for the old row order uses u = 1/2,
            # so that with unchanged values every old pivot provably still passes the threshold (SluApi!ObsSFactor)
            # (u = 0 is what the header of p?gstrf recommends to force a given row order; the obligations of a session are relative to |L||U|,
            # so they hold whatever the growth)
            u = "1.0" if not c["refact"] else (rng.choice(["0.5", "0.0"]) if c["usepr"] else rng.choice(["1.0", "0.5", "0.1"]))
            lines.append("sinit P=%d refact=%d usepr=%d lwork=%d u=%s%s" % (rng.choice(threads), int(c["refact"]), int(c["usepr"]), {"sys": 0, "user": 16 << 20}[c["lw"]], u,
                                                                           " woff=%d" % rng.choice([0, 4, 8, 12]) if c["lw"] == "user" and not c["refact"] else ""))
        elif c["call"] == "sfactor":
            lines.append("sfactor")
        elif c["call"] == "ssolve":
            nr, pd, _ = rhs_shape(rng.choice([1, 1, 2, 3]), rng.choice([0, 0, 2]), 0)
            lines.append("ssolve trans=%s nrhs=%d pad=%d seed=%d" % (c["trans"], nr, pd, rng.randrange(1, 10 ** 6)))
        elif c["call"] == "scon":
            lines.append("scon norm=%s" % c["norm"])
        elif c["call"] == "sdropac":
            lines.append("sdropac")
        elif c["call"] == "sfinal":
            lines.append("sfinal")
    return "\n".join(lines) + "\n"


# ---------------------------------------------------------------- execution
def run_script(text, outdir, name, prec="d", variant="verif", timeout=120, env=None):
    exe = driver(prec, variant)
    sp = os.path.join(outdir, name + ".txt")
    op = os.path.join(outdir, name + ".ndjson")
    with open(sp, "w") as f:
        f.write(text)
    if os.path.exists(op):
        os.remove(op)
    e = dict(os.environ)
    e.setdefault("ASAN_OPTIONS", "detect_leaks=0:abort_on_error=1")
    if env:
        e.update(env)
    p = subprocess.run([exe, sp, op, str(timeout)], capture_output=True, text=True, env=e)
    m = re.search(r"STATUS (\S+)", p.stdout)
    status = m.group(1) if m else "nostatus"
    return status, op, p.stderr[-3000:]


def calls_of(path):
    recs = []
    if not os.path.exists(path):
        return recs
    with open(path) as f:
        for ln in f:
            if ln.startswith('{"e":"Call"'):
                recs.append(json.loads(ln))
    return recs


def validate_calls(workdir, name, path, timeout=120):
    """TLC-validate the Call records of one executed script against SluApi."""
    tlc.stage(workdir)
    recs = calls_of(path)
    cp = os.path.join(workdir, name + ".calls.ndjson")
    with open(cp, "w") as f:
        for r in recs:
            f.write(json.dumps(r) + "\n")
    mod = "TRApi_" + name
    with open(os.path.join(workdir, mod + ".tla"), "w") as f:
        f.write("---- MODULE %s ----\nEXTENDS SluApiTrace\n====\n" % mod)
    cfg = os.path.join(workdir, mod + ".cfg")
    with open(cfg, "w") as f:
        f.write('CONSTANT MaxLen = 1000\nCONSTANT Alphabet = {}\nSPECIFICATION TSpec\nINVARIANT TypeOK\nCONSTRAINT Progress\nPOSTCONDITION Accepted\nCHECK_DEADLOCK FALSE\n')
    r = tlc.run(workdir, mod, cfg, workers=1, timeout=timeout, env={"TRACE": cp}, xmx="1g")
    r["nrecs"] = len(recs)
    r["recs"] = recs
    for suffix in (".tla", ".cfg"):
        try:
            os.remove(os.path.join(workdir, mod + suffix))
        except OSError:
            pass
    return r


# a Python mirror of the obligations, used ONLY to name the clause that failed in a rejected record
def diagnose(r):
    bad = []
    def chk(name, cond):
        if not cond:
            bad.append(name)
    if r.get("call") == "gssv":
        chk("xerbla", r["xerbla"] == 0); chk("threads", r["thr1"] == r["thr0"]); chk("A unchanged", r["Aunch"] == 1)
        chk("B padding", r["padok"] == 1); chk("perm_c bijection", r["permc"] == 1)
        if r["info"] == 0:
            chk("perm_r bijection", r["permr"] == 1); chk("factor structure", r["extract"] == 0)
            chk("reconstruction bound", 0 <= r["recon"] <= 1000); chk("multiplier bound", 0 <= r["maxl"] <= 1000)
            if r["nrhs"] > 0:
                chk("residual bound", 0 <= r["resid"] <= 1000)
        elif r["info"] > 0 and r["info"] <= r["n"]:
            chk("B unchanged on singular", r["Bunch"] == 1)
        else:
            bad.append("info=%d" % r["info"])
    elif r.get("call") == "sinit":
        chk("xerbla", r["xerbla"] == 0); chk("A unchanged", r["Aunch"] == 1); chk("perm_c bijection", r["permc"] == 1)
        chk("AC is the column-permuted view of A", r["acok"] == 1); chk("etree postordered / ordering changed by a postorder only", r["etpost"] == 1 and r["postonly"] == 1 and (not r["refact"] or r["permcunch"] == 1))
        chk("init touched perm_r / options", r["permrunch"] == 1 and r["optsok"] == 1)
        chk("init retains memory", r["dlive"] == (3 if r["refact"] else 6))
    elif r.get("call") == "sfactor":
        chk("xerbla", r["xerbla"] == 0); chk("threads", r["thr1"] == r["thr0"]); chk("A unchanged", r["Aunch"] == 1); chk("perm_c bijection", r["permcunch"] == 1)
        chk("guard zones of the workspace", r["guard"] == 1)
        if r["refact"]:
            chk("refact retains memory", r["live1"] == r["live0"])
        if r["info"] == 0:
            chk("perm_r bijection", r["permr"] == 1); chk("factor structure", r["extract"] == 0); chk("reconstruction bound", 0 <= r["recon"] <= 1000)
            chk("multiplier bound", r["maxl"] >= 0 and r["maxl"] * r["u1000"] <= 1001000)
            if r["lwmode"] == 1:
                chk("factors inside workspace", r["inside"] == 1)
            if r["usepr"] and r["u1000"] <= 500:
                chk("pivot reuse not honoured", r["permrunch"] == 1 and r["useprkept"] == 1)
        elif not (1 <= r["info"] <= r["n"]):
            bad.append("info=%d" % r["info"])
    elif r.get("call") == "ssolve":
        chk("xerbla", r["xerbla"] == 0); chk("threads", r["thr1"] == r["thr0"]); chk("solve info", r["info"] == 0)
        chk("solve modified A / L / U / permutations", r["Aunch"] == 1 and r["Lunch"] == 1 and r["permunch"] == 1); chk("B padding", r["padok"] == 1)
        chk("solve retains memory", r["live1"] == r["live0"])
        if r["nrhs"] > 0:
            chk("residual bound", 0 <= r["resid"] <= 1000)
    elif r.get("call") == "scon":
        chk("xerbla", r["xerbla"] == 0); chk("solve info", r["info"] == 0); chk("solve modified A / L / U / permutations", r["Lunch"] == 1)
        chk("solve retains memory", r["live1"] == r["live0"])
        if r["rclo"] != -2:
            chk("rcond sandwich", 0 <= r["rclo"] <= 1100 and 0 <= r["rchi"] <= 1100)
    elif r.get("call") in ("sdropac", "sfinal"):
        bad.append("session release does not return the session's blocks")
    elif r.get("call") == "gssvx":
        chk("xerbla", r["xerbla"] == 0); chk("threads", r["thr1"] == r["thr0"]); chk("A scaling relation", r["Aok"] == 1)
        chk("B scaling relation", r["Bok"] == 1); chk("perm_c bijection", r["permc"] == 1)
        chk("guard zones of the workspace", r.get("guard", 1) == 1)
        if r["fact"] != "EQUILIBRATE":
            chk("A unchanged", r["Aunch"] == 1)
        if r["lwmode"] == -1:
            chk("query info>n", r["info"] > r["n"]); chk("query estimate>0", r["needed"] > 0); chk("query X untouched", r["Xunch"] == 1)
            chk("query retains memory", r["live1"] == r["live0"])
            if r.get("factver", 0) > 0:
                chk("query clobbers existing factors / permutations", r["permunch"] == 1 and r["Lunch"] == 1)
        else:
            if r["fact"] == "FACTORED":
                chk("FACTORED modified A", r["Aunch"] == 1); chk("FACTORED modified perms", r["permunch"] == 1)
                chk("FACTORED modified L/U", r["Lunch"] == 1); chk("FACTORED retains memory", r["live1"] == r["live0"])
            if r["fact"] == "DOFACT":
                chk("DOFACT equed", r["equed"] == 0)
            if r["refact"] == 1:
                chk("refact retains memory", r["live1"] == r["live0"])
            if r["lwmode"] == 1 and r["fact"] != "FACTORED" and r["info"] in (0, r["n"] + 1):
                chk("factors inside workspace", r["inside"] == 1)
            if 1 <= r["info"] <= r["n"]:
                chk("X untouched on singular", r["Xunch"] == 1)
            elif r["info"] in (0, r["n"] + 1):
                chk("info=n+1 iff rcond<eps", (r["info"] == r["n"] + 1) == (r["rcondsmall"] == 1))
                chk("perm_r bijection", r["permr"] == 1)
                if r.get("sym") == 1 and r.get("u1000") == 0 and r["fact"] != "FACTORED":
                    chk("diagonal pivots (perm_r = perm_c)", r.get("prpc") == 1)
                if r["nrhs"] > 0 and 0 <= r["cond"] < 100000000:
                    chk("backward error of X (original system)", r["omega"] >= 0 and (r.get("refok") != 1 or r["omega"] <= 20000) and 0 <= r.get("omegan", 0) <= 1000000)
                    chk("berr truthful", r["berrdev"] <= 20000); chk("ferr dominates", r["ferrok"] <= 1000)
                    chk("rcond sandwich", r["rclo"] <= 1100 and r["rchi"] <= 1100); chk("pivot growth", r["rpgdev"] <= 1000)
            else:
                bad.append("info=%d" % r["info"])
    return bad


def split_factorizations(path):
    """per-factorization trace files (SluPipeTrace format) from a drv_api output"""
    with open(path) as f:
        lines = [l for l in f.read().splitlines() if l and not l.startswith('{"e":"Call') and not l.startswith('{"e":"End"')]
    tmp = path.replace(".ndjson", ".ev.ndjson")
    with open(tmp, "w") as f:
        f.write("\n".join(lines) + "\n")
    outs = pipe.prepare(tmp)
    return outs


# ---------------------------------------------------------------- the caller's workspace as a two-ended stack (SluStack)
def stack_events(path):
    """the Stk* events of an executed script, in order (they are logged under the stack lock with a global sequence number)"""
    out, n = [], 0
    with open(path) as f:
        for ln in f:
            if ln.startswith('{"e":"Stk'):
                r = json.loads(ln)
                out.append({"e": r["e"], "a": r["a"]})
                n += 1
            elif ln.startswith('{"e":"CallBegin"') and '"refact"' in ln:
                # what the caller asked for: a first factorization sets the workspace up, a re-factorization keeps its head (SluStackTrace!TCtx)
                out.append({"e": "StkCtx", "a": [json.loads(ln)["refact"]]})
    return out if n else []


def validate_stack(workdir, name, path, timeout=300):
    """TLC-validate the Stk* events of one process against SluStack (every step recomputed from the state before, StackOK on every state).
    Returns (result or None when the script never used a caller workspace, number of events)."""
    evs = stack_events(path)
    if not evs:
        return None, 0
    tlc.stage(workdir)
    tp = os.path.join(workdir, name + ".stk.ndjson")
    with open(tp, "w") as f:
        for e in evs:
            f.write(json.dumps(e) + "\n")
    mod = "TRStk_" + name
    with open(os.path.join(workdir, mod + ".tla"), "w") as f:
        f.write("---- MODULE %s ----\nEXTENDS SluStackTrace\n====\n" % mod)
    cfg = os.path.join(workdir, mod + ".cfg")
    with open(cfg, "w") as f:
        f.write("SPECIFICATION TSpec\nINVARIANT StackOK\nCONSTRAINT Progress\nPOSTCONDITION Accepted\nCHECK_DEADLOCK FALSE\n")
    r = tlc.run(workdir, mod, cfg, workers=1, timeout=timeout, env={"TRACE": tp}, xmx="1g")
    for suffix in (".tla", ".cfg"):
        try:
            os.remove(os.path.join(workdir, mod + suffix))
        except OSError:
            pass
    r["events"] = evs
    return r, len(evs)
