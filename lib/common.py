"""Shared plumbing of the checks: run directories, evidence, known findings,
parallel execution, violation reporting."""
import json, os, sys, time, shutil, hashlib, subprocess, random
from concurrent.futures import ThreadPoolExecutor

VERIF = os.path.dirname(os.path.dirname(os.path.abspath(__file__)))
SPEC = os.path.join(VERIF, "spec")
RUN = os.path.join(VERIF, ".run")
EVID = os.path.join(VERIF, "evidence")
NCPU = min(16, os.cpu_count() or 4)


def seed():
    try:
        return int(os.environ.get("VERIF_SEED", "1"))
    except ValueError:
        return 1


def rundir(pid, tier):
    # VERIF_RUNTAG: a second run of the same check at the same time (against a scratch copy of the repository, VERIF_REPO) gets
    # its own scratch directory and writes its evidence next to it instead of over the committed one
    d = os.path.join(RUN, "%s_%s%s" % (pid, tier, os.environ.get("VERIF_RUNTAG", "")))
    shutil.rmtree(d, ignore_errors=True)
    os.makedirs(d, exist_ok=True)
    return d


def pmap(fn, items, workers=NCPU):
    with ThreadPoolExecutor(max_workers=workers) as ex:
        return list(ex.map(fn, items))


class Check:
    """Collects what a check run covered and what it found."""

    def __init__(self, pid, tier, level):
        self.pid, self.tier, self.level = pid, tier, level
        self.t0 = time.time()
        self.seed = seed()
        self.dir = rundir(pid, tier)
        self.cov = {"evaluations": 0, "distinct_nontrivial": 0, "rule": "", "samples": [],
                    "states": 0, "transitions": 0, "traces_validated_against_impl": 0}
        self.distinct = set()
        self.assumptions = []
        self.violations = []      # (key, description, replay path)
        self.known = []
        self.notes = {}
        self.findings = load_findings()

    # ---- coverage bookkeeping
    def case(self, key, nontrivial=True, sample=None):
        self.cov["evaluations"] += 1
        if nontrivial:
            self.distinct.add(key if isinstance(key, str) else json.dumps(key, sort_keys=True))
        if sample is not None and len(self.cov["samples"]) < 6:
            self.cov["samples"].append(sample)

    def model(self, states, transitions):
        self.cov["states"] += int(states)
        self.cov["transitions"] += int(transitions)

    def traces(self, n=1):
        self.cov["traces_validated_against_impl"] += n

    # ---- findings
    def violation(self, key, desc, replay_payload=None):
        """key identifies the failing input/site/history; matched against known_findings.json."""
        for f in self.findings:
            if f.get("status", "open") == "open" and (f["property"] == self.pid or self.pid in f.get("also", [])) and match_finding(f, key, desc):
                if f["id"] not in [k["id"] for k in self.known]:
                    self.known.append(f)
                return False
        path = os.path.join(self.dir, "replay_%d.json" % (len(self.violations) + 1))
        with open(path, "w") as fh:
            json.dump({"property": self.pid, "key": key, "what": desc, "payload": replay_payload}, fh, indent=1, default=str)
        self.violations.append((key, desc, path))
        return True

    def finish(self):
        self.cov["distinct_nontrivial"] = len(self.distinct)
        wall = time.time() - self.t0
        cov = dict(self.cov)
        if self.level != "model_checking":
            for k in ("states", "transitions", "traces_validated_against_impl"):
                if not cov.get(k):
                    cov.pop(k, None)
        cov.update(self.notes)
        ev = {"property_id": self.pid, "tier": self.tier, "seed": self.seed, "level": self.level,
              "coverage": cov, "assumptions": self.assumptions, "wall_s": round(wall, 2),
              "violations": len(self.violations)}
        evdir = self.dir if os.environ.get("VERIF_RUNTAG") else EVID
        os.makedirs(evdir, exist_ok=True)
        with open(os.path.join(evdir, self.pid + ".json"), "w") as fh:
            json.dump(ev, fh, indent=1, default=str)
        for f in self.known:
            print("KNOWN-FINDING: property=%s %s (%s)" % (self.pid, f["what"], f["id"]))
        for key, desc, path in self.violations:
            print("VIOLATION property=%s replay=%s" % (self.pid, path))
            print("  " + str(desc)[:600])
        print("%s %s: %d evaluations, %d distinct, %d states, %d traces validated, %d violation(s), %.1fs" % (
            self.pid, self.tier, cov.get("evaluations", 0), cov.get("distinct_nontrivial", 0),
            self.cov["states"], self.cov["traces_validated_against_impl"], len(self.violations), wall))
        sys.stdout.flush()
        return 1 if self.violations else 0


def load_findings():
    p = os.path.join(VERIF, "known_findings.json")
    if not os.path.exists(p):
        return []
    with open(p) as fh:
        return json.load(fh).get("findings", [])


def match_finding(f, key, desc):
    m = f.get("match", {})
    if "key" in m and m["key"] == key:
        return True
    if "key_prefix" in m and isinstance(key, str) and key.startswith(m["key_prefix"]):
        return True
    if "desc_contains" in m and all(x in str(desc) for x in m["desc_contains"]):
        return True
    return False
