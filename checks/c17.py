"""C17  No resource leaks: a call gives back everything except what it returns.

Model: SluApi with the heap baseline `base`: after Destroy the number of live library
allocations equals the baseline taken when the matrix was created (ObsDestroy); a FACTORED call, a
refactorization and a workspace query retain nothing (live1 = live0); no thread outlives a call.
Binding: every allocation and release of the library goes through the USER_MALLOC / USER_FREE seam
(plus --wrap of raw malloc/free), so the harness knows the set of live blocks with their sites;
TLC enumerates histories over the full alphabet (first factor, refactor, FACTORED, singular,
query, user workspace, both drivers) that end with destroy; each history is executed TWICE in one
process: the baseline of the second pass must equal the first (no growth).
"""
import sys, os, random
sys.path.insert(0, os.path.join(os.path.dirname(os.path.abspath(__file__)), "..", "lib"))
import common, build, api, apicheck


def main(tier):
    ck = common.Check("C17", tier, "model_checking")
    rng = random.Random(ck.seed * 1000003 + 17)
    build.ensure("verif")
    quick = tier == "quick"
    ck.cov["rule"] = ("TLC enumerates the legal histories of length 4 (quick) / 5 (thorough) over {mat, vals, gssv, gssvx(all modes incl. "
                      "query, user workspace, singular), destroy}; those ending with destroy are sampled and executed twice in one process; "
                      "SluApiTrace checks live-block counts at every call (query/FACTORED/refact retain nothing, destroy returns to the baseline, "
                      "thread count unchanged); distinct = distinct (precision, history)")
    ck.assumptions += ["allocations are observed through USER_MALLOC/USER_FREE and --wrap=malloc/free/calloc; file handles are not opened by these calls"]

    def doubled(h):
        return h + h

    def judge(h, recs):
        mats = [r for r in recs if r.get("call") == "mat"]
        half = len(mats) // 2
        if half and len(mats) == 2 * half and mats[0]["live"] != mats[half]["live"]:
            return "repeating the history grew the heap: %d live library blocks at the first matrix creation, %d at its repetition" % (mats[0]["live"], mats[half]["live"])
        return None
    wd = os.path.join(ck.dir, "api")
    hs, r = api.enumerate_histories(wd, 4 if quick else 5, ["mat", "vals", "gssv", "gssvx", "destroy", "singular", "user", "query", "equil", "trans"], simulate=None if quick else 4000, name="C17")
    ck.model(r["distinct"], r["generated"])
    hs = [h for h in hs if h[0]["call"] == "mat" and h[-1]["call"] == "destroy" and sum(1 for c in h if c["call"] == "mat") == 1]
    ck.notes["histories_enumerated_ending_with_destroy"] = len(hs)
    sample = apicheck.covering_sample(hs, 72 if quick else 800, rng)
    # hand the doubled histories to the generic runner through a tiny shim
    import tlc, json
    os.makedirs(wd, exist_ok=True)
    tlc.stage(wd)
    for p in ("d", "s", "z", "c"):
        api.driver(p)
    items = []
    for i, (h, prec) in enumerate(sample):
        hh = [dict(c, trans="T") if (prec in "cz" and c.get("trans") == "C") else c for c in h]
        seed_rng = random.Random(rng.randrange(10 ** 9))
        txt1 = api.script_of(hh, seed_rng, nmax=20, threads=(1, 2, 4))
        body = "\n".join(l for l in txt1.splitlines() if not l.startswith("ienv") and not l.startswith("track"))
        head = "\n".join(l for l in txt1.splitlines() if l.startswith("ienv") or l.startswith("track"))
        items.append((i, hh, prec, head + "\n" + body + "\n" + body + "\n"))

    def one(a):
        i, h, prec, txt = a
        st, op, err = api.run_script(txt, wd, "h%d" % i, prec=prec)
        v = api.validate_calls(wd, "h%d" % i, op) if st == "exit:0" else None
        return i, h, prec, txt, st, v, err
    for i, h, prec, txt, st, v, err in common.pmap(one, items):
        key = "hist2x:%s:%s" % (prec, json.dumps(h, sort_keys=True))
        ck.case(key, sample={"precision": prec, "history_run_twice": h} if len(ck.cov["samples"]) < 3 else None)
        if st != "exit:0":
            ck.violation(key, "history did not run to completion (%s): %s %s" % (st, json.dumps(h), err[-300:]), {"script": txt})
            continue
        if not v["ok"]:
            rl = v["rejected_line"]
            rec = v["recs"][rl - 1] if rl and rl <= len(v["recs"]) else None
            clauses = api.diagnose(rec) if rec else []
            if rec and rec.get("call") == "destroy":
                clauses = ["destroy does not return the heap to the baseline"]
            mine = [c for c in clauses if "C17" in apicheck.CLAUSE_PROPS.get(c, {"C17"})]
            if clauses and not mine:
                ck.notes.setdefault("rejections_about_other_properties", []).append(clauses)
                continue
            ck.violation("api:%s:%s" % (rec.get("call") if rec else "?", "+".join(mine)),
                         "precision %s: record %s rejected by SluApi (%s): %s; history %s" % (prec, rl, mine, json.dumps(rec)[:600], json.dumps(h)), {"script": txt})
            continue
        ck.traces()
        msg = judge(h, v["recs"])
        if msg:
            ck.violation(key, msg, {"script": txt})
    # the computational routines called directly: what p?gstrf_init hands to the caller (three option arrays + the view AC) is exactly
    # what Destroy_CompCol_Permuted / pxgstrf_finalize give back; p?gstrf (first time: L, U only; re-factorization: nothing), ?gstrs and
    # ?gscon retain nothing (SluApi!ObsSInit / ObsSFactor / ObsSSolve / ObsSCon / ObsSDrop / ObsSFinal / ObsDestroy with SesBlocks)
    apicheck.run_sessions(ck, 7 if quick else 8, 32 if quick else 400, rng, precs=("d", "s", "z", "c"), threads=(1, 2, 4), nmax=20,
                          hist_filter=lambda h: h[-1]["call"] in ("destroy", "sfinal", "sdropac"), validate_pipe=False)
    return ck.finish()


if __name__ == "__main__":
    sys.exit(main(sys.argv[1] if len(sys.argv) > 1 else "quick"))
