"""C01  Simple driver solves A*X=B for every nonsingular input, nprocs and schedule.

Model: SluApi.Gssv (info = 0, A bit-for-bit unchanged, rows of B beyond n untouched, X within the
backward-stable bound computed from the RETURNED factors) and SluPipe (every interleaving of the
factorization inside the call is a behaviour of the pipeline model).
Binding: TLC enumerates histories over {mat(NC|NR), vals, gssv, destroy}; each is executed with
random matrices, nrhs in 0..3, ldb >= n, orderings -1..3, 1..8 threads (also > n), with
schedule perturbation, in four precisions; SluApiTrace validates every call record and
SluPipeTrace every recorded factorization.  SluSolve: ?gstrs / sp_?trsv as sweeps over the supernodes by NUMBER (model: every component
is final before a dense solve consumes it, for every well-formed structure, refuted for ill-formed ones); every real solve call of the
histories (recorded through --wrap of the dense kernels) must make exactly the kernel calls of the sweep: which block of L, which part of B.
"""
import sys, os, random
sys.path.insert(0, os.path.join(os.path.dirname(os.path.abspath(__file__)), "..", "lib"))
import common, build, apicheck, solve


def main(tier):
    ck = common.Check("C01", tier, "exploration")
    rng = random.Random(ck.seed * 1000003 + 1)
    build.ensure("verif")
    ck.cov["rule"] = ("histories over {mat(NC|NR), vals, gssv, destroy} enumerated by TLC from SluApi (depth 4), sampled; each executed on "
                      "random/banded/arrow/grid matrices (n <= 24 quick, <= 60 thorough) with nrhs 0..3, padded ldb, orderings, 1..8 threads and "
                      "schedule perturbation; distinct = distinct (precision, history) pairs; the residual clause is evaluated by the harness "
                      "oracle in long double against gamma(3n) (Pr^T|L||U|Pc^T)|X| from the returned factors and asserted by SluApiTrace")
    ck.assumptions += ["residual / reconstruction ratios come from the trusted long-double oracle (harness/oracle.h)",
                       "matrices are generated structurally nonsingular and well conditioned; index width 32 bit, pthread build"]
    quick = tier == "quick"
    apicheck.run_histories(ck, ["mat", "vals", "gssv", "destroy"], 4, 80 if quick else 800, rng,
                           precs=("d", "s", "z", "c"), threads=(1, 2, 3, 4, 8, 16), nmax=24 if quick else 60, pert=30)
    # the solve itself as a state machine: the sweeps of ?gstrs / sp_?trsv over the supernodes (SluSolve.tla); every real solve call of
    # the histories above was compared with it (apicheck.judge_solves); here the machine is model-checked on all small structures
    sens_ok = solve.check_models(ck, os.path.join(ck.dir, "solvemodel"), 4)
    rc = ck.finish()
    if not sens_ok:
        print("SELFTEST-FAIL: SluSolve accepts sweeps over ill-formed structures: %s" % ck.notes.get("solve_model_ill_formed_structures_rejected"))
        return 3
    return rc


if __name__ == "__main__":
    sys.exit(main(sys.argv[1] if len(sys.argv) > 1 else "quick"))
