"""C05  Memory safety: the predicted bound on L is never exceeded; arrays suffice.

Model: SluOrder!BoundOK (symbolic elimination with row merging over EVERY pivot sequence: the
column counts returned by sp_colorder dominate |L(:,j)|; exhaustive for all structurally
nonsingular 0/1 patterns with n <= 3/4), SluPipeTrace!SlotBound (no L supernode outgrows the
lusup slot reserved for it: the code bumps the slot pointer without lock and without check, the
trace specification checks every bump against the slot end, in static and dynamic mode) and the
per-column dominance clause of ResultOK on every real factorization.
Binding: (1) drv_order records -> TLC; (2) recorded factorizations built with clang
AddressSanitizer + UBSan (so any out-of-bounds access of a library-owned block aborts the job) over
panel sizes 1..8, relax 1..6, maxsuper 1..8, 1..4 threads, four precisions, adversarial values
(thresholds 0..1), validated against SluPipeTrace; (3) too small U / L-subscript estimates
(sp_ienv 7, 8 forced small) must end in the library's diagnostic (exit through USER_ABORT), never
in a sanitizer report or a signal; (4) dynamic supernode storage mode.
"""
import sys, os, random
sys.path.insert(0, os.path.join(os.path.dirname(os.path.abspath(__file__)), "..", "lib"))
import common, build, tlc, pipe, order, pipecheck
from pipecheck import replay


def bound_records(ck, quick):
    wd = os.path.join(ck.dir, "ord")
    os.makedirs(wd, exist_ok=True)
    tlc.stage(wd)
    plan = [(2, "all", 0), (3, "all", 0), (4, "rand", 400 if quick else 4000), (5, "rand", 100 if quick else 1500)]
    if not quick:
        plan.append((4, "all", 0))

    def one(a):
        i, (n, mode, cnt) = a
        f = os.path.join(wd, "b%d.ndjson" % i)
        rc, err = order.generate(f, n, mode, cnt, ck.seed * 977 + i, 0)
        ns, sg, na, nb = order.split_by_rank(f)
        r = tlc.order_trace(wd, "b%d" % i, ns, check_bound=True, timeout=3000) if na else None
        rs = tlc.order_trace(wd, "s%d" % i, sg, check_bound=False, timeout=3000) if nb else None
        return a, ns, sg, na, nb, r, rs
    for (i, (n, mode, cnt)), ns, sg, na, nb, r, rs in common.pmap(one, list(enumerate(plan)), workers=6):
        key = "bound:n%d:%s" % (n, mode)
        ck.notes["bound_records_structurally_nonsingular"] = ck.notes.get("bound_records_structurally_nonsingular", 0) + na
        ck.notes["records_structurally_singular_not_claimed"] = ck.notes.get("records_structurally_singular_not_claimed", 0) + nb
        if r is None:
            continue
        ck.model(r["distinct"], r["generated"])
        ck.cov["evaluations"] += na
        if r["ok"]:
            ck.traces(na)
            for k in range(na):
                ck.distinct.add("%s:%d" % (key, k))
            if len(ck.cov["samples"]) < 2:
                ck.cov["samples"].append(open(ns).readline().strip()[:500])
        else:
            ln = open(ns).readlines()[r["rejected_line"] - 1].strip() if r["rejected_line"] else ""
            ck.violation("bound:" + ln[:160], "column counts of the bounding factor do not dominate L for some pivot sequence: " + ln[:900], {"records": ns})


def main(tier):
    ck = common.Check("C05", tier, "model_checking")
    rng = random.Random(ck.seed * 1000003 + 5)
    quick = tier == "quick"
    build.ensure("verif")
    ck.cov["rule"] = ("(1) one record per (pattern, ordering) from the real sp_colorder, TLC checks the column-count bound over all pivot "
                      "sequences (exhaustive n<=3, sampled n=4,5 in quick; all n=4 in thorough); (2) one job per recorded factorization under "
                      "ASan+UBSan, validated against SluPipeTrace incl. SlotBound; distinct = distinct records + job descriptions")
    ck.assumptions += ["ASan sees only accesses outside a malloc'ed block; overflow from one lusup slot into the next (same block) is caught by "
                       "SlotBound on the logged bump pointer instead", "the bound claim is made for structurally nonsingular patterns (see F3)"]
    bound_records(ck, quick)
    out = os.path.join(ck.dir, "tr")
    os.makedirs(out, exist_ok=True)
    jobs = []
    for i in range(48 if quick else 500):
        j = pipe.random_job(rng, i, out, nmax=40 if quick else 120, threads=(1, 2, 3, 4))
        j.update(ps=rng.choice([1, 2, 3, 5, 8]), relax=rng.choice([1, 2, 4, 6]), maxsuper=rng.choice([1, 2, 3, 5, 8]),
                 u=rng.choice(["0", "0.1", "1.0"]), vstyle=rng.choice([0, 2, 3]), timeout=240)
        if i % 6 == 5:
            j["lwork"] = 8000000
        if i % 6 == 4:      # symmetric mode: bound and slots computed from A'+A, valid when the pivots stay on the diagonal
            n = rng.randint(4, 40 if quick else 100)
            for k in ("par", "lowfill", "kl", "ku", "last"):
                j.pop(k, None)
            j.update(gen="random", n=n, dens=rng.choice([40, 80, 150, 300]), fulldiag=1, vstyle=1, order=2, u="0", sym=1, refact=0)
        if i % 6 == 3:      # symmetric mode on unsymmetric block patterns (column counts of A'+A larger than the rows of A in a relaxed supernode)
            for k in ("par", "lowfill", "kl", "ku", "last", "dens", "fulldiag"):
                j.pop(k, None)
            rl = rng.choice([2, 3, 4])
            n, pat = pipe.uptri_pattern(rng, 24 if quick else 50, rl)
            j.update(gen="pattern", n=n, pat=pat, vstyle=1, order=-1, u="0", sym=1, refact=0, ps=rng.choice([1, 2, 3]), relax=rl,
                     maxsuper=rng.choice([4, 8]))
        jobs.append(j)
    precs = ("d", "z") if quick else ("d", "s", "z", "c")
    build.ensure("asan")
    pipecheck.run_traces(ck, jobs, out, precs=precs, variant="asan", accept_abort=True)
    # too small estimates for U / L subscripts: the library must stop with its diagnostic
    small = []
    for i in range(24 if quick else 120):
        j = pipe.random_job(rng, 1000 + i, out, nmax=40, threads=(1, 2, 4, 4, 8), kinds=("random", "grid", "banded"))
        # sp_ienv(7) / sp_ienv(8): a positive value is the array length itself (the first request already fails), a negative one a multiple of nnz(A)
        # (the arrays run out somewhere in the middle of the factorization, while several workers are allocating)
        j.update(fill7=rng.choice([1, 2, 3, 40, -1, -1, -2]) if i % 2 else 0, fill8=rng.choice([1, 2, 30, -1, -1]) if i % 2 == 0 else 0, timeout=120)
        if j.get("P", 1) >= 2 and i % 4 < 3:
            # threads delayed right before they take a lock: a capacity test made outside the critical section that bumps the counter
            # (check-then-act) lets two requests that each fit alone pass together -- the overflow is then a write past ucol / usub / lsub
            j.update(focus="lock", focuspct=rng.choice([40, 60]), focusus=rng.choice([100, 300]))
        j["id"] = "sm%d" % i
        j["out"] = os.path.join(out, j["id"] + ".ndjson")
        small.append(j)
    # the same on larger grids with 8 workers: many allocation requests arrive together near the end of the (too small) U / L-subscript arrays
    for i in range(12 if quick else 60):
        k = rng.randint(14, 22)
        j = {"id": "smg%d" % i, "gen": "grid", "kl": k, "n": k * k, "order": rng.choice([-1, 1, 2]), "P": 8, "ps": rng.choice([1, 2, 4]), "relax": rng.choice([1, 2, 4]),
             "maxsuper": rng.choice([4, 8]), "pert": 0, "seed": rng.randrange(1, 10 ** 6), "vstyle": 0, "nrhs": 1, "timeout": 240,
             "focus": rng.choice(["lock", "lockpair"]), "focuspct": rng.choice([40, 60, 80]), "focusus": rng.choice([100, 200, 400])}
        j.update(fill7=-rng.choice([1, 1, 2]) if i % 3 else 0, fill8=-1 if i % 3 == 0 else 0)
        j["out"] = os.path.join(out, j["id"] + ".ndjson")
        small.append(j)
    st = pipe.run_jobs(small, out, variant="asan")
    aborted = 0
    for j in small:
        s = st.get(j["id"], "missing")
        key = "small:" + pipe.job_line({k: v for k, v in j.items() if k not in ("out", "id")})
        ck.case(key)
        if s == "exit:42":
            aborted += 1
        elif s != "ok":
            ck.violation(key, "too small size estimate did not end in the library's diagnostic but in %s: %s" % (s, pipe.job_line(j)), {"job": j})
    ck.notes["small_estimate_jobs_stopped_by_diagnostic"] = aborted
    # dynamic supernode storage mode
    dyn = []
    for i in range(16 if quick else 150):
        j = pipe.random_job(rng, 2000 + i, out, nmax=40, threads=(1, 2, 4))
        j.update(dyn=1, id="dy%d" % i)
        j["out"] = os.path.join(out, j["id"] + ".ndjson")
        dyn.append(j)
    pipecheck.run_traces(ck, dyn, out, variant="asan", accept_abort=True)
    # symmetric mode where pivots must leave the diagonal (explicit zeros on the diagonal): the Cholesky-based reserve cannot hold L;
    # the library must stop with a diagnostic or return an error, not write outside its slots (recorded finding F20)
    soff = []
    for i, k in enumerate((5, 8, 10) if quick else (4, 5, 6, 8, 10, 12)):
        j = {"id": "so%d" % i, "gen": "grid", "kl": k, "n": k * k, "P": 2, "ps": 8, "relax": 6, "maxsuper": 100, "pert": 0, "seed": 5, "vstyle": 0, "order": 2,
             "u": "0", "sym": 1, "zd": 60, "timeout": 120, "out": os.path.join(out, "so%d.ndjson" % i)}
        soff.append(j)
    st = pipe.run_jobs(soff, out, variant="asan")
    wd = os.path.join(ck.dir, "tlc_so")
    tlc.stage(wd)
    for j in soff:
        s_ = st.get(j["id"], "missing")
        key = "symoffdiag:grid%d" % j["kl"]
        ck.case(key)
        bad = None
        if s_ == "exit:42":
            continue                       # the library's own diagnostic: acceptable
        if s_ != "ok":
            bad = "job ended with %s (sanitizer report / signal)" % s_
        elif os.path.exists(j["out"]):
            pipe.prepare(j["out"])
            r = tlc.pipe_trace(wd, j["id"], j["out"])
            if not r["ok"]:
                bad = "trace rejected: " + pipe.explain(r, j["out"])[:300]
        if bad:
            ck.violation(key, "symmetric mode with pivots off the diagonal (%dx%d grid, explicit zero diagonal entries): %s" % (j["kl"], j["kl"], bad), {"job": j})
    return ck.finish()


if __name__ == "__main__":
    sys.exit(main(sys.argv[1] if len(sys.argv) > 1 else "quick"))
