"""C10  Orderings are bijections; preprocessing yields A*Pc and its postordered etree.

Model / oracle: SluOrder.tla -- declarative TLA+ definitions: IsPermSeq; A*Pc as a view of A
(column Pc(j) = column j, arrays shared and bit-identical); the elimination tree of
(A*Pc)^T(A*Pc) (of Pc(A+A^T)Pc^T in symmetric mode) by symbolic elimination of the column
intersection graph; PostorderedTree (every subtree a contiguous range ending at its root);
the new ordering = a tree relabelling of the old one (composition with a postorder only);
PartitionOK for part_super_h.
Binding: harness/drv_order.c runs get_perm_c(-1..3) and sp_colorder of the real library on every
0/1 pattern with n <= 3 (quick) / n <= 4 (thorough) and on random patterns up to n = 16 (dense
rows, empty columns, disconnected blocks), both modes; TLC evaluates OrderOK on every record.
"""
import sys, os, random
sys.path.insert(0, os.path.join(os.path.dirname(os.path.abspath(__file__)), "..", "lib"))
import common, build, tlc, order


def main(tier):
    ck = common.Check("C10", tier, "model_checking")
    rng = random.Random(ck.seed * 1000003 + 10)
    build.ensure("verif")
    quick = tier == "quick"
    ck.cov["rule"] = ("one record per (0/1 pattern, ordering option -1..3, mode): exhaustive for n <= 3 (quick) / n <= 4 (thorough), random "
                      "patterns for n in 4..16; TLC evaluates SluOrder!OrderOK on every record (one TLC state per record); "
                      "distinct = distinct records (pattern x ordering x mode); non-trivial = the pattern has at least one entry")
    ck.assumptions += ["TLC's set-based definitions limit the checked size to n <= 16; larger matrices are only covered through the etree that "
                       "every validated factorization trace is built on (SluPipe ASSUME PostOrdered)"]
    plan = [(1, "all", 0, 0), (2, "all", 0, 0), (3, "all", 0, 0), (2, "all", 0, 1), (3, "all", 0, 1),
            (4, "rand", 500 if quick else 3000, 0), (4, "rand", 200 if quick else 1500, 1),
            (6, "rand", 200 if quick else 1500, 0), (8, "rand", 100 if quick else 800, 0), (8, "rand", 60 if quick else 400, 1),
            (12, "rand", 40 if quick else 300, 0), (16, "rand", 20 if quick else 150, 0)]
    if not quick:
        plan += [(4, "all", 0, 0), (4, "all", 0, 1), (5, "rand", 3000, 0)]
    wd = os.path.join(ck.dir, "ord")
    os.makedirs(wd, exist_ok=True)
    tlc.stage(wd)

    def one(a):
        i, (n, mode, cnt, sym) = a
        f = os.path.join(wd, "o%d.ndjson" % i)
        rc, err = order.generate(f, n, mode, cnt, ck.seed * 131 + i, sym)
        if rc == 4:
            last = open(f).readlines()[-1].strip() if os.path.exists(f) else ""
            return a, f, None, "get_perm_c / sp_colorder did not return within 20 s on %s" % last[:600]
        if rc != 0:
            return a, f, None, "driver exit %s: %s" % (rc, err)
        r = tlc.order_trace(wd, "o%d" % i, f, check_bound=False, timeout=3000)
        return a, f, r, None
    for (i, (n, mode, cnt, sym)), f, r, err in common.pmap(one, list(enumerate(plan)), workers=8):
        key = "order:n%d:%s:%d:sym%d" % (n, mode, cnt, sym)
        if r is None:
            ck.violation(key, "ordering driver failed: " + err)
            continue
        nrec = sum(1 for _ in open(f))
        ck.model(r["distinct"], r["generated"])
        ck.cov["evaluations"] += nrec
        ck.notes["records"] = ck.notes.get("records", 0) + nrec
        if r["ok"]:
            ck.traces(nrec)
            for k in range(nrec):
                ck.distinct.add("%s:%d" % (key, k))
            if len(ck.cov["samples"]) < 4:
                ck.cov["samples"].append(open(f).readline().strip()[:600])
            os.remove(f)
        else:
            ln = open(f).readlines()[r["rejected_line"] - 1].strip() if r["rejected_line"] else ""
            ck.violation("order:" + ln[:200], "record rejected by SluOrder!OrderOK (%s): %s" % (r["errors"][:2] or "predicate false", ln[:900]),
                         {"records": f, "line": r["rejected_line"]})
    return ck.finish()


if __name__ == "__main__":
    sys.exit(main(sys.argv[1] if len(sys.argv) > 1 else "quick"))
