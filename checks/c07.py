"""C07  Expert driver solves the original system for every trans/storage/equil option.

Model: SluApi.Gssvx: for every (fact, trans, storage) the record of the call must show
info in {0, n+1}, A and B changed exactly as equed/R/C say (C11 rule, in the user's orientation
for row-wise storage), and an X whose componentwise backward error for the ORIGINAL unscaled
op(A) X = B is of order (n+1) eps (oracle, asserted when cond < 1e8).
Binding: TLC enumerates histories over {mat, vals, gssvx(fact x trans x mem), destroy}; badly
scaled matrices force each equed outcome; four precisions; every record validated by SluApiTrace.
"""
import sys, os, random
sys.path.insert(0, os.path.join(os.path.dirname(os.path.abspath(__file__)), "..", "lib"))
import common, build, apicheck


def main(tier):
    ck = common.Check("C07", tier, "exploration")
    rng = random.Random(ck.seed * 1000003 + 7)
    build.ensure("verif")
    ck.cov["rule"] = ("histories over {mat(NC|NR), vals, gssvx(DOFACT|EQUILIBRATE|FACTORED x N|T|C x sys|user), destroy} enumerated by TLC "
                      "(depth 3), sampled; matrices with row/column scalings spanning 2^-48..2^48 force equed in {none,row,col,both}; "
                      "distinct = distinct (precision, history); a history is non-trivial when it contains an expert-driver call")
    ck.assumptions += ["backward error / scaling relations evaluated by the long-double oracle; accuracy asserted only when the 1/inf-norm "
                       "condition number of the equilibrated matrix is < 1e8 (the property's refinement-contracts regime)"]
    quick = tier == "quick"
    seen = {}

    def judge(h, recs):
        for r in recs:
            if r.get("call") == "gssvx" and r.get("info") in (0, r.get("n", -2) + 1):
                seen[(r["fact"], r["trans"], r["stype"], r["equed"])] = seen.get((r["fact"], r["trans"], r["stype"], r["equed"]), 0) + 1
        return None
    apicheck.run_histories(ck, ["mat", "vals", "gssvx", "destroy", "equil", "trans", "user"], 3, 80 if quick else 800, rng,
                           precs=("d", "s", "z", "c"), threads=(1, 2, 4), nmax=20 if quick else 50,
                           hist_filter=lambda h: any(c["call"] == "gssvx" for c in h), extra_judge=judge)
    ck.notes["option_combinations_seen(fact,trans,stype,equed)"] = len(seen)
    ck.notes["equed_outcomes_seen"] = sorted({k[3] for k in seen})
    return ck.finish()


if __name__ == "__main__":
    sys.exit(main(sys.argv[1] if len(sys.argv) > 1 else "quick"))
