"""C04  Factorization terminates, does each panel exactly once, leaves no threads.

Model: SluPipe under FairSpec: Termination (liveness, weak fairness of every worker and of the
master), TasksExact, OncePerPanel, QueueBound, NeverRoot, WaitOnBusy, Finished -- also with zero
pivots and with more workers than panels.
Binding: recorded executions under CPU oversubscription (up to 4 x cores threads), injected delays,
singular inputs, P > n; each job under a watchdog; every trace validated (the trace specification
requires an Exit for every worker before JoinAll, one Pivot per column, the thread count of the
process to be the same before and after the call).
"""
import sys, os, random
sys.path.insert(0, os.path.join(os.path.dirname(os.path.abspath(__file__)), "..", "lib"))
import common, tlc, pipe, forests, build, pipecheck
from pipecheck import replay


def mc_plan(tier, rng):
    plan = []
    if tier == "quick":
        for f in forests.all_forests(4):
            plan.append((f, forests.min_sbnd(f), 2, rng.choice([1, 2, 3]), rng.choice([1, 2]), rng.choice([2, 3]), True))
        for f in forests.all_forests(3):           # more workers than panels
            plan.append((f, forests.min_sbnd(f), 3, rng.choice([1, 2, 3]), rng.choice([1, 3]), 2, True))
        for f in forests.all_forests(2):
            plan.append((f, forests.min_sbnd(f), 3, 2, 2, 2, True))
    else:
        for n in (2, 3, 4):
            for f in forests.all_forests(n):
                for ps in (1, 2, 3):
                    for rl in (1, 2, 3):
                        plan.append((f, forests.min_sbnd(f), 2, ps, rl, 3, True))
                plan.append((f, forests.min_sbnd(f), 3, rng.choice([1, 2, 3]), rng.choice([1, 2]), 2, n <= 3))
        for f in forests.all_forests(5):
            plan.append((f, rng.choice(forests.sbnd_choices(f, rng, 3)), 2, rng.choice([1, 2, 3]), rng.choice([1, 2, 3]), 3, True))
    return plan


def zero_pivot_runs(ck, tier, rng):
    """same model with zero pivots enabled: termination and info = min over all zero-pivot columns"""
    wd = os.path.join(ck.dir, "mcz")
    tlc.stage(wd)
    fs = forests.all_forests(3) + (rng.sample(forests.all_forests(4), 4) if tier == "quick" else forests.all_forests(4))

    def one(a):
        i, f = a
        return f, tlc.pipe_mc(wd, "z%d" % i, f, forests.min_sbnd(f), 2, rng.choice([1, 2]), rng.choice([1, 2]), 2, zero=True, liveness=True, timeout=900)
    for f, r in common.pmap(one, list(enumerate(fs))):
        ck.model(r["distinct"], r["generated"])
        key = "mcz:%s" % f
        if r["timeout"]:
            continue
        ck.case(key)
        if not r["ok"]:
            ck.violation(key, "model with zero pivots violates %s for forest %s" % (r["violated"] or r["errors"][:2], f))


def jobs_for(tier, rng, out):
    n = 48 if tier == "quick" else 400
    jobs = []
    for i in range(n):
        j = pipe.random_job(rng, i, out, nmax=30 if tier == "quick" else 100,
                            threads=(1, 2, 3, 4, 8, 16, 32, 64))
        j["pert"] = rng.choice([0, 30, 60, 90])
        j["timeout"] = 180
        m = i % 6
        if m == 0:
            j["zc"] = ",".join(str(rng.randrange(0, 6)) for _ in range(rng.choice([1, 2])))
        if m == 1:     # more threads than columns
            j.update(gen="forest", par=",".join(map(str, forests.random_forest(rng.randint(1, 5), rng))), dens=60, lowfill=50, P=rng.choice([8, 16]))
            j.pop("n", None)
        if m == 2:
            j["lwork"] = 8000000
        jobs.append(j)
    return jobs


def sched_plan(tier, rng):
    """forests for the SluSched replay: exhaustive state graphs (one implementation test per transition) and sampled behaviours"""
    plan, sim = [], []
    quick = tier == "quick"

    def item(f, P):
        return (f, forests.min_sbnd(f), P, rng.choice([1, 2, 3]), rng.choice([1, 2, 3]), rng.choice([2, 3, 4]), rng.choice(["max", "max", "none"]))
    for f in forests.all_forests(4) + (forests.all_forests(5) if not quick else rng.sample(forests.all_forests(5), 8)):
        plan.append(item(f, 2))
    for f in forests.all_forests(3) + ([] if quick else forests.all_forests(4)):
        plan.append(item(f, 3))
    for _ in range(8 if quick else 60):
        n = rng.randint(6, 9 if quick else 11)
        plan.append(item(forests.random_forest(n, rng, chain_bias=rng.choice([0.3, 0.6]), root_prob=0.2), 2))
    for _ in range(6 if quick else 60):
        n = rng.randint(10, 16 if quick else 28)
        sim.append(item(forests.random_forest(n, rng, chain_bias=rng.choice([0.3, 0.6]), root_prob=0.2), rng.choice([3, 4, 6])) + (300 if quick else 3000, 400))
    return plan, sim


def main(tier):
    ck = common.Check("C04", tier, "model_checking")
    rng = random.Random(ck.seed * 1000003 + 4)
    build.ensure("verif")
    ck.cov["rule"] = ("model: exhaustive TLC runs of SluPipe under FairSpec with PROPERTY Termination per (forest, P, panel, relax, maxsuper), "
                      "with and without zero pivots; implementation: recorded factorizations with 1..64 threads (4 x cores), P > n, "
                      "singular inputs, injected delays, each under a 180 s watchdog, validated against SluPipeTrace; replay: per forest, every "
                      "transition of SluSched's state graph (all interleavings of loop test / scheduler section / mark / finish) executed on the real "
                      "scheduling functions with outputs and complete state compared; "
                      "distinct = distinct (forest/parameters) model runs + distinct job descriptions")
    ck.assumptions += ["liveness under weak fairness of each worker's next step and of the master (an OS scheduler that eventually runs every thread)",
                       "sequentially consistent interleavings; spin flags are monotone (set under the scheduler lock, cleared once by the owner)",
                       "a job that exceeds the 180 s watchdog is reported as non-termination"]
    pipecheck.run_mc(ck, mc_plan(tier, rng), timeout=600 if tier == "quick" else 3000)
    zero_pivot_runs(ck, tier, rng)
    # every interleaving of scheduler sections and panel completions that TLC enumerates for a forest, executed on the
    # real ParallelInit / pxgstrf_scheduler (panel returned, tasks_remain, queue count, states, ukids after every call)
    sp, ssim = sched_plan(tier, rng)
    pipecheck.run_sched_replay(ck, sp, ssim)
    out = os.path.join(ck.dir, "tr")
    os.makedirs(out, exist_ok=True)

    def judge(j, cfg, res):
        if res is None:
            return "no result record"
        if res["thrAfter"] != res["thrBefore"]:
            return "threads left behind: %d before, %d after the call" % (res["thrBefore"], res["thrAfter"])
        return None
    pipecheck.run_traces(ck, jobs_for(tier, rng, out), out, judge=judge)
    return ck.finish()


if __name__ == "__main__":
    sys.exit(main(sys.argv[1] if len(sys.argv) > 1 else "quick"))
