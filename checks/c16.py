"""C16  Symmetric mode with diagonal pivoting is correct and keeps diagonal pivots.

Model: SluOrder (symmetric variant: etree of Pc(A+A^T)Pc^T, Cholesky column counts dominate the
structure of L under diagonal pivoting -- DiagSeqOK, exhaustive for full-diagonal patterns n <= 3/4),
SluApi.ObsGssvx (sym = 1, u = 0: perm_r = perm_c, accuracy clauses of C07), SluPipeTrace (SlotBound:
the slots reserved from the symmetric prediction suffice).
Binding: expert-driver histories with SymmetricMode = YES, ordering 2 (minimum degree on A^T+A),
threshold 0, strictly diagonally dominant matrices, 1..4 threads, four precisions.
"""
import sys, os, random
sys.path.insert(0, os.path.join(os.path.dirname(os.path.abspath(__file__)), "..", "lib"))
import common, build, tlc, order, apicheck


def main(tier):
    ck = common.Check("C16", tier, "model_checking")
    rng = random.Random(ck.seed * 1000003 + 16)
    build.ensure("verif")
    build.ensure("asan")
    quick = tier == "quick"
    ck.cov["rule"] = ("(1) records of the real sp_colorder in symmetric mode for every full-diagonal 0/1 pattern n<=3 (n<=4 thorough) and random "
                      "ones to n=8: TLC checks etree, postorder and the Cholesky-count bound under diagonal pivoting; (2) expert-driver histories "
                      "with SymmetricMode=YES, u=0, ordering 2 on diagonally dominant matrices, validated against SluApiTrace (perm_r = perm_c, "
                      "accuracy) and SluPipeTrace (SlotBound); distinct = records + (precision, history) pairs")
    wd = os.path.join(ck.dir, "ord")
    os.makedirs(wd, exist_ok=True)
    tlc.stage(wd)
    plan = [(2, "all", 0), (3, "all", 0), (4, "rand", 300 if quick else 3000), (6, "rand", 100 if quick else 800)]
    if not quick:
        plan.append((4, "all", 0))

    def one(a):
        i, (n, mode, cnt) = a
        f = os.path.join(wd, "s%d.ndjson" % i)
        order.generate(f, n, mode, cnt, ck.seed * 31 + i, 1)
        return a, f, tlc.order_trace(wd, "s%d" % i, f, check_bound=(n <= 5), timeout=3000)
    for (i, (n, mode, cnt)), f, r in common.pmap(one, list(enumerate(plan)), workers=5):
        nrec = sum(1 for _ in open(f))
        ck.model(r["distinct"], r["generated"])
        ck.cov["evaluations"] += nrec
        if r["ok"]:
            ck.traces(nrec)
            for k in range(nrec):
                ck.distinct.add("sym:n%d:%s:%d" % (n, mode, k))
            if len(ck.cov["samples"]) < 2:
                ck.cov["samples"].append(open(f).readline().strip()[:500])
        else:
            ln = open(f).readlines()[r["rejected_line"] - 1].strip() if r["rejected_line"] else ""
            ck.violation("symorder:" + ln[:160], "symmetric-mode record rejected by SluOrder: " + ln[:900], {"records": f})
    apicheck.run_histories(ck, ["mat", "vals", "gssvx", "destroy", "trans"], 3, 60 if quick else 600, rng, precs=("d", "s", "z", "c"),
                           threads=(1, 2, 4), nmax=24 if quick else 60, script_kw={"symmetric": True, "scale_for_equil": False}, variant="asan",
                           hist_filter=lambda h: any(c["call"] == "gssvx" and c["fact"] == "DOFACT" and not c["refact"] for c in h)
                           and all(c.get("stype", "NC") == "NC" for c in h))
    return ck.finish()


if __name__ == "__main__":
    sys.exit(main(sys.argv[1] if len(sys.argv) > 1 else "quick"))
