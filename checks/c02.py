"""C02  Factors satisfy Pr*A*Pc = L*U with multipliers bounded by the pivot threshold.

Model: SluPivot (the documented pivot policy over the abstract inputs of a step: user's row,
original diagonal, maximum; total and deterministic), SluLU (unit-lower L / upper U structure) and
SluPipe (schedule independence: every interleaving produces a behaviour of the pipeline model).
Binding: recorded factorizations over thresholds u in {0, 0.1, 0.5, 1}, panel sizes 1..8,
relaxation 1..6, max-supernode 1..8, small-integer values (exact ties), explicit zero diagonals,
forced pivot orders (usepr with a caller-supplied perm_r, u = 0) on 0/1 patterns with n <= 4;
the harness reconstructs from the RETURNED factors, for every column, the classes of the
diagonal / user candidates and which row was taken; TLC evaluates SluPivot!StepOK on every step,
|l_ij| <= 1/u, and the long-double reconstruction ratio |PrAPc - LU| / (gamma(n)|L||U|) <= 1.
"""
import sys, os, random, itertools
sys.path.insert(0, os.path.join(os.path.dirname(os.path.abspath(__file__)), "..", "lib"))
import common, build, pipe, pipecheck
from pipecheck import replay


def main(tier):
    ck = common.Check("C02", tier, "model_checking")
    rng = random.Random(ck.seed * 1000003 + 2)
    build.ensure("verif")
    quick = tier == "quick"
    ck.cov["rule"] = ("each job = one recorded factorization (pattern/values, u, panel, relax, maxsuper, threads, optional forced pivot order); "
                      "TLC validates the event trace against SluPipeTrace and, on the Result record, SluPivot!StepOK for every elimination step, "
                      "the multiplier bound and the reconstruction ratio; forced-order jobs enumerate (0/1 pattern n<=4, pivot order) pairs; "
                      "distinct = distinct job descriptions; states = trace states explored by TLC")
    ck.assumptions += ["the reconstruction and threshold relations are evaluated by the long-double oracle from the returned factors; steps whose "
                       "candidate lies within 16 ulp of the threshold are classed 'undecided' and accepted",
                       "vendor-BLAS kernel variant not exercised in the quick tier"]
    out = os.path.join(ck.dir, "tr")
    os.makedirs(out, exist_ok=True)
    jobs = []
    for i in range(110 if quick else 1000):
        j = pipe.random_job(rng, i, out, nmax=30 if quick else 80, threads=(1, 2, 4))
        j.update(ps=rng.choice([1, 2, 3, 4, 8]), relax=rng.choice([1, 2, 3, 6]), maxsuper=rng.choice([1, 2, 3, 8]),
                 u=rng.choice(["0", "0", "0.1", "0.5", "1.0"]), vstyle=rng.choice([0, 2, 2, 3]), zd=rng.choice([0, 30, 60]))
        if j["gen"] == "random":
            j["fulldiag"] = 1
        jobs.append(j)
    # the 2-D blocked supernode-panel update (p?gstrf_bmod2D) is only taken for supernodes with >= sp_ienv(5) columns and >= sp_ienv(4)
    # rows below the diagonal block (defaults 100 / 200): small cut-offs and wide supernodes on dense-ish matrices reach it
    for i in range(16 if quick else 150):
        j = pipe.random_job(rng, 3000 + i, out, nmax=60, threads=(1, 2, 4), kinds=("random", "banded"))
        n = rng.randint(24, 60 if quick else 120)
        for k in ("par", "lowfill", "last"):
            j.pop(k, None)
        j.update(n=n, dens=rng.choice([300, 500, 800]), fulldiag=1, kl=rng.randint(4, 10), ku=rng.randint(4, 10), order=rng.choice([-1, 1, 2]),
                 ps=rng.choice([4, 8]), relax=rng.choice([2, 4, 6]), maxsuper=rng.choice([8, 16, 32]), ie4=rng.choice([4, 5, 8]), ie5=rng.choice([4, 5, 6]),
                 u=rng.choice(["0.1", "1.0"]), vstyle=rng.choice([0, 3]))
        jobs.append(j)
    # forced pivot orders on small patterns (every row order is a legal request at u = 0)
    pats = []
    for n in (2, 3, 4):
        allp = list(itertools.product("01", repeat=n * n))
        picks = allp if (n <= 3 and not quick) else rng.sample(allp, min(len(allp), 25 if quick else 600))
        for p in picks:
            pat = "".join(p)
            if any(pat[r * n + c] == "1" for r in range(n) for c in range(n)):
                pats.append((n, pat))
    k = 0
    for n, pat in pats:
        orders = list(itertools.permutations(range(n)))
        for order in (orders if not quick else rng.sample(orders, min(2, len(orders)))):
            # keep only structurally complete requests: column c must have an entry in the requested row
            rows = [None] * n
            for r, pos in enumerate(order):
                rows[pos] = r
            if not all(pat[rows[c] * n + c] == "1" for c in range(n)):
                continue
            k += 1
            jobs.append({"id": "fp%d" % k, "gen": "pattern", "n": n, "pat": pat, "usepr": 1, "permr": ",".join(map(str, order)),
                         "u": "0", "P": rng.choice([1, 2]), "ps": rng.choice([1, 2, 4]), "relax": rng.choice([1, 2]), "maxsuper": rng.choice([1, 2, 4]),
                         "vstyle": 0, "seed": rng.randrange(10 ** 6), "out": os.path.join(out, "fp%d.ndjson" % k)})
    ck.notes["forced_pivot_order_jobs"] = k
    # requested row orders at u > 0 on general values: the requested row is a candidate of most columns (dense-ish patterns) and passes the
    # threshold for only some of them -- the policy must take it exactly where it is eligible and never where it is below u * max
    for i in range(28 if quick else 300):
        n = rng.randint(4, 12 if quick else 30)
        perm = list(range(n))
        rng.shuffle(perm)
        jobs.append({"id": "rq%d" % i, "gen": "random", "n": n, "dens": rng.choice([600, 800, 1000]), "fulldiag": 1, "usepr": 1, "permr": ",".join(map(str, perm)),
                     "u": rng.choice(["0.1", "0.5", "1.0"]), "P": rng.choice([1, 2, 4]), "ps": rng.choice([1, 2, 4]), "relax": rng.choice([1, 2, 3]),
                     "maxsuper": rng.choice([1, 2, 4, 8]), "vstyle": rng.choice([0, 3]), "order": rng.choice([-1, 1]), "seed": rng.randrange(10 ** 6),
                     "out": os.path.join(out, "rq%d.ndjson" % i)})
    forced = {}

    def judge(j, cfg, res):
        if res is None:
            return "no result record"
        if j.get("usepr") and res.get("info") == 0:
            want = [int(x) + 1 for x in j["permr"].split(",")]
            forced["n"] = forced.get("n", 0) + 1
            if res["permr"] != want:
                # the natural (identity) column order plus postorder may renumber columns; the request is in terms of A*Pc
                # columns, which the library postorders: accept only if a user pivot was classed ineligible
                if all(s[1] == 2 for s in res.get("pivsteps", [])):
                    return "forced pivot order %s not honoured although every requested pivot was eligible: perm_r = %s" % (want, res["permr"])
        return None
    pipecheck.run_traces(ck, jobs, out, judge=judge, precs=("d",) if quick else ("d", "s", "z", "c"))
    # the same factorizations in the configuration of the repository's own CMake build (USE_VENDOR_BLAS: the 1-D / 2-D supernodal updates and the
    # supernode-internal solves go to ?trsv_ / ?gemv_ of the BLAS -- other branches of the panel and column kernels): every job that is not a
    # forced-order pattern job, in double precision (thorough: all four)
    vjobs = [dict(j, id=j["id"] + "v", out=j["out"].replace(".ndjson", "_v.ndjson")) for j in jobs if not j["id"].startswith("fp")]
    build.ensure("vendor")
    pipecheck.run_traces(ck, vjobs, out, judge=judge, precs=("d",) if quick else ("d", "s", "z", "c"), variant="vendor")
    ck.notes["factorizations_in_the_USE_VENDOR_BLAS_configuration"] = len(vjobs) * (1 if quick else 4)
    ck.notes["forced_orders_with_info0"] = forced.get("n", 0)
    return ck.finish()


if __name__ == "__main__":
    sys.exit(main(sys.argv[1] if len(sys.argv) > 1 else "quick"))
