"""C03  No column is consumed before it is final, under every interleaving.

Model: SluPipe (scheduler + pipeline + numbering + pruning), exhaustively per forest.
Binding: (A) trace validation of real multithreaded factorizations recorded through the
SLU_MT_VERIF hooks (SluPipeTrace), every invariant evaluated after every event;
self-test of the binding (corrupted / reordered / dropped events must be rejected).
"""
import sys, os, random, json, time
sys.path.insert(0, os.path.join(os.path.dirname(os.path.abspath(__file__)), "..", "lib"))
import common, tlc, pipe, forests, build, pipecheck
from pipecheck import run_mc, replay

ORIGINAL = {"FixupOrder": '"number"', "BusyRead": '"second"', "PruneOrder": '"after"'}


def mc_plan(tier, rng):
    """(forest, sbnd, P, ps, relax, maxsuper, liveness) tuples"""
    plan = []
    trip = lambda: (rng.choice([1, 2, 3]), rng.choice([1, 2, 3]), rng.choice([2, 3]))
    if tier == "quick":
        for f in forests.all_forests(4):
            ps, rl, ms = trip()
            plan.append((f, forests.min_sbnd(f), 2, ps, rl, ms, True))
        f5 = forests.all_forests(5)
        for f in rng.sample(f5, 10):
            ps, rl, ms = trip()
            sb = rng.choice(forests.sbnd_choices(f, rng, 3))
            plan.append((f, sb, 2, ps, rl, ms, False))
        for f in rng.sample(forests.all_forests(3), 3):
            plan.append((f, forests.min_sbnd(f), 3, rng.choice([1, 2]), 1, 2, False))
    else:
        for n in (3, 4, 5):
            for f in forests.all_forests(n):
                for ps in (1, 2, 3):
                    for rl in (1, 2, 3):
                        if n == 5 and (ps, rl) not in ((1, 1), (2, 1), (3, 2), (2, 3)):
                            continue
                        plan.append((f, forests.min_sbnd(f), 2, ps, rl, 3, n <= 4))
        for f in forests.all_forests(6):
            ps, rl, ms = trip()
            plan.append((f, rng.choice(forests.sbnd_choices(f, rng, 3)), 2, ps, rl, ms, False))
        for f in forests.all_forests(4):
            plan.append((f, forests.min_sbnd(f), 3, rng.choice([1, 2, 3]), rng.choice([1, 2]), 2, False))
    return plan


def model_sensitivity(ck):
    """The invariants are not vacuous: the pre-repair designs violate them in the model."""
    wd = os.path.join(ck.dir, "mcsens")
    tlc.stage(wd)
    exp = {}
    chain = ([2, 3, 4, 5, 6], [1, 3, 4, 5], 3, 1)
    branch = ([2, 5, 4, 5, 6], [1, 3, 5], 4, 1)
    for name, (f, sb, ps, rl), design, inv in (
            ("busyread", chain, dict(tlc.CODE_DESIGN, BusyRead='"second"', PruneOrder='"after"'), "NoWriteWhileRead"),
            ("prune", chain, dict(tlc.CODE_DESIGN, PruneOrder='"after"'), "NoWriteWhileWrite"),
            ("fixup", branch, dict(tlc.CODE_DESIGN, FixupOrder='"number"'), "CompactionSafe")):
        r = tlc.pipe_mc(wd, "s_" + name, f, sb, 2, ps, rl, 3, design=design, liveness=False, timeout=600, workers=4, invs=[inv])
        exp[name] = inv in r["violated"]
        ck.model(r["distinct"], r["generated"])
    ck.notes["model_rejects_prerepair_designs"] = exp
    return all(exp.values())


def trace_jobs(ck, tier, rng):
    out = os.path.join(ck.dir, "tr")
    os.makedirs(out, exist_ok=True)
    if tier == "quick":
        n, nmax = 64, 40
    else:
        n, nmax = 600, 120
    jobs = [pipe.random_job(rng, i, out, nmax=nmax) for i in range(n)]
    # structured forests that stress the pipeline: long chains and chains below a branch
    for k, par in enumerate([[i + 2 for i in range(12)], [2, 3, 4, 9, 6, 7, 8, 9, 10], [2, 3, 7, 5, 6, 7, 8]]):
        for P in (2, 4):
            jobs.append({"id": "s%d_%d" % (k, P), "gen": "forest", "par": ",".join(map(str, par)), "dens": 60, "lowfill": 60,
                         "P": P, "ps": rng.choice([1, 2, 3]), "relax": 1, "maxsuper": rng.choice([2, 4]), "pert": 30,
                         "seed": rng.randrange(10 ** 6), "out": os.path.join(out, "s%d_%d.ndjson" % (k, P))})
    # relaxed supernodes with padding zeros below a pipelined chain: general sparse patterns (not forest-realising ones), relax >= 2,
    # narrow panels, several workers, delays after the critical sections -- the busy-update path of p?gstrf_panel_bmod then meets
    # relaxed supernodes that were pruned by a column of the busy chain (round-8 seed C03-busy-append-skipped-on-zero-segment)
    for i in range(24 if tier == "quick" else 300):
        j = pipe.random_job(rng, 7000 + i, out, nmax=40, threads=(3, 4, 4, 8), kinds=("random", "random", "banded", "grid"))
        j.update(ps=rng.choice([1, 1, 2]), relax=rng.choice([2, 3, 4, 6]), maxsuper=rng.choice([4, 8, 16]), pert=rng.choice([20, 40, 60]))
        if j["gen"] == "random":
            j.update(n=rng.randint(16, 40), dens=rng.choice([80, 120, 200]), fulldiag=1)
        j.update(focus="unlock", focuspct=rng.choice([30, 50, 70]), focusus=rng.choice([100, 300, 600]))
        jobs.append(j)
    return jobs, out


def selftest_binding(ck, jobs, out):
    """Corrupt a validated trace in three ways; each must be rejected."""
    cand = None
    for j in jobs:
        if not os.path.exists(j["out"]):
            continue
        cfg, res, nl, kinds = pipe.trace_info(j["out"])
        if kinds.get("BusyUpdBegin", 0) >= 1 and kinds.get("Release", 0) >= 2 and nl < 2500:
            cand = j
            break
    if cand is None:
        ck.notes["binding_selftest"] = "no suitable trace"
        return True
    lines = open(cand["out"]).read().splitlines()
    results = {}
    # 1. corrupt one logged field: the bcol reported by a Sched event
    idx = [i for i, l in enumerate(lines) if '"e":"Sched"' in l and json.loads(l)["a"][1] >= 0]
    m1 = list(lines)
    d = json.loads(m1[idx[len(idx) // 2]])
    d["a"][2] = d["a"][2] + 1
    m1[idx[len(idx) // 2]] = json.dumps(d)
    # 2. move a Release before its Pivot
    m2 = list(lines)
    ridx = [i for i, l in enumerate(m2) if '"e":"Release"' in l]
    r = ridx[len(ridx) // 2]
    rel = json.loads(m2[r])
    pv = max(i for i in range(r) if '"e":"Pivot"' in m2[i] and json.loads(m2[i])["p"] == rel["p"])
    m2.insert(pv, m2.pop(r))
    # 3. drop one hook: remove all Release events (as if the hook had been compiled out)
    m3 = [l for l in lines if '"e":"Release"' not in l]
    for name, m in (("corrupt_field", m1), ("release_before_pivot", m2), ("hook_removed", m3)):
        p = os.path.join(out, "selftest_%s.ndjson" % name)
        open(p, "w").write("\n".join(m) + "\n")
        rr = tlc.pipe_trace(os.path.join(ck.dir, "tlc"), "st_" + name, p)
        results[name] = "rejected" if not rr["ok"] else "ACCEPTED"
    ck.notes["binding_selftest"] = results
    return all(v == "rejected" for v in results.values())


def sched_plan(tier, rng):
    """forests for the SluSched replay: exhaustive state graphs (one implementation test per transition) and sampled behaviours"""
    plan, sim = [], []
    quick = tier == "quick"

    def item(f, P):
        return (f, forests.min_sbnd(f), P, rng.choice([1, 2, 3]), rng.choice([1, 2, 3]), rng.choice([2, 3, 4]), rng.choice(["max", "max", "none"]))
    for f in forests.all_forests(4) + (forests.all_forests(5) if not quick else rng.sample(forests.all_forests(5), 8)):
        plan.append(item(f, 2))
    for f in forests.all_forests(3) + ([] if quick else forests.all_forests(4)):
        plan.append(item(f, 3))
    for _ in range(8 if quick else 60):
        n = rng.randint(6, 9 if quick else 11)
        plan.append(item(forests.random_forest(n, rng, chain_bias=rng.choice([0.3, 0.6]), root_prob=0.2), 2))
    for _ in range(6 if quick else 60):
        n = rng.randint(10, 16 if quick else 28)
        sim.append(item(forests.random_forest(n, rng, chain_bias=rng.choice([0.3, 0.6]), root_prob=0.2), rng.choice([3, 4, 6])) + (300 if quick else 3000, 400))
    return plan, sim


def main(tier):
    ck = common.Check("C03", tier, "model_checking")
    rng = random.Random(ck.seed * 1000003 + 3)
    build.ensure("verif")
    ck.cov["rule"] = ("model: one exhaustive TLC run of SluPipe per (postordered forest, H-partition, P, panel size, relax, maxsuper), "
                      "distinct = distinct tuples whose run finished; implementation: one recorded multithreaded factorization per job "
                      "(random/structured matrix, thread count, tuning parameters, perturbation seed), validated event by event against "
                      "SluPipeTrace with all invariants; a job is non-trivial if >= 2 workers took panels (all jobs use P >= 2); "
                      "replay: per forest, every transition of SluSched's state graph executed on the real ParallelInit / pxgstrf_scheduler / "
                      "pxgstrf_mark_busy_descends with outputs and complete scheduler state compared (traces_validated counts these tests too)")
    ck.assumptions += ["sequentially consistent interleavings (TLC); weak-memory reorderings are outside the model",
                       "hook logging discipline of DESIGN 4.2 (release logged before the store, acquire after the load)",
                       "exhaustive bounds: N <= 5 (quick) / N <= 6 (thorough) columns, P <= 3 workers; beyond that validated real traces only"]
    plan = mc_plan(tier, rng)
    run_mc(ck, plan, timeout=600 if tier == "quick" else 3000)
    sens_ok = model_sensitivity(ck)
    # behaviours of the scheduling layer (which panel, which first busy descendant, which columns are marked busy)
    # replayed into the real scheduler / mark_busy_descends: one implementation test per transition of SluSched
    sp, ssim = sched_plan(tier, rng)
    pipecheck.run_sched_replay(ck, sp, ssim)
    jobs, out = trace_jobs(ck, tier, rng)
    pipecheck.run_traces(ck, jobs, out)
    # the other build configurations of the library: OpenMP threading instead of pthreads, and 64-bit indices (_LONGINT);
    # same hooks, same specification (the thread-count clause compares against the OpenMP runtime's pool, created beforehand)
    for variant, cnt in (("omp", 8 if tier == "quick" else 120), ("longint", 6 if tier == "quick" else 120)):
        vout = os.path.join(ck.dir, "tr_" + variant)
        os.makedirs(vout, exist_ok=True)
        vjobs = [pipe.random_job(rng, 5000 + i, vout, nmax=30 if tier == "quick" else 80, threads=(2, 3, 4, 8)) for i in range(cnt)]
        build.ensure(variant)
        pipecheck.run_traces(ck, vjobs, vout, variant=variant)
        ck.notes["traces_" + variant + "_build"] = cnt
    # the repository's own test driver (TESTING/p?drive.c, unmodified) as a trace generator: every factorization it
    # performs with 4 threads is recorded through the hooks and must be a behaviour of SluPipe
    ex = os.path.join(build.REPO, "EXAMPLE")
    if tier == "quick":
        runs = [("d", ["-t", "LA", "-n", "10", "-s", "2", "-l", "0", "-p", "4"])]
    else:
        runs = [(p, ["-t", "LA", "-n", n, "-s", "2", "-l", l, "-p", "4"]) for p in "dszc" for n in ("10", "19") for l in ("0", "100000000")]
        runs += [(p, ["-t", "SP", "-s", "2", "-l", "0", "-p", "4"], os.path.join(ex, "g10" if p in "ds" else "cg20.cua")) for p in "dszc"]
    pipecheck.run_repo_tests(ck, runs, perturb=20)
    # the self-test needs a trace that still exists: record one more
    stjobs = [dict(jobs[-1], id="st", out=os.path.join(out, "st.ndjson"))]
    pipe.run_jobs(stjobs, out, shards=1)
    for j in stjobs:
        if os.path.exists(j["out"]):
            pipe.prepare(j["out"])
    bind_ok = selftest_binding(ck, stjobs, out)
    rc = ck.finish()
    if not (sens_ok and bind_ok):
        print("SELFTEST-FAIL: model sensitivity %s, binding %s" % (ck.notes.get("model_rejects_prerepair_designs"), ck.notes.get("binding_selftest")))
        return 3
    return rc


if __name__ == "__main__":
    sys.exit(main(sys.argv[1] if len(sys.argv) > 1 else "quick"))
