"""C08  Re-factorization and factor reuse stay correct over any call history.

Model: SluApi with value versions: a FACTORED call is legal only for factors of the current
values and must modify neither A, L, U nor the permutations; a refactorization (refact = YES,
with or without usepr) reuses the storage and must solve the CURRENT values.
Binding: TLC enumerates all histories up to depth 4/5 over {mat, vals, gssvx(first | refact |
refact+usepr | FACTORED(trans)), destroy}; the harness gives every version different values, so a
stale factor shows up as a large backward error; thread counts vary between calls; internal and
user workspace.
"""
import sys, os, random
sys.path.insert(0, os.path.join(os.path.dirname(os.path.abspath(__file__)), "..", "lib"))
import common, build, apicheck


def main(tier):
    ck = common.Check("C08", tier, "model_checking")
    rng = random.Random(ck.seed * 1000003 + 8)
    build.ensure("verif")
    ck.cov["rule"] = ("TLC enumerates every legal history of length 4 (quick) / 5 (thorough) over the refactor/reuse alphabet from SluApi; "
                      "a seed-chosen sample is executed with different values per version and validated record by record against SluApiTrace "
                      "(a record of a FACTORED call must show A, L, U, perm_r, perm_c unchanged; every call must solve the current values); "
                      "states/transitions = size of the enumerated history graph; distinct = distinct executed (precision, history)")
    ck.assumptions += ["histories are legal in the sense of the documented preconditions (FACTORED only with factors of the current values; "
                       "refact only after an expert-driver factorization in the same memory mode)"]
    quick = tier == "quick"

    def interesting(h):
        x = [c for c in h if c["call"] == "gssvx"]
        return len(x) >= 2 and any(c["refact"] or c["fact"] == "FACTORED" for c in x)
    apicheck.run_histories(ck, ["mat", "vals", "gssvx", "destroy", "trans", "user", "equil"], 4 if quick else 5, 80 if quick else 1000, rng,
                           precs=("d", "z") if quick else ("d", "s", "z", "c"), threads=(1, 2, 3, 4, 8), nmax=24 if quick else 60,
                           hist_filter=interesting, pert=20)
    # the same property through the computational routines called directly (p?gstrf_init / p?gstrf / ?gstrs / pxgstrf_finalize, the
    # protocol of EXAMPLE/pdrepeat.c): sessions with at least one re-factorization, solves and condition estimates in between

    def refactors(h):
        return sum(1 for c in h if c["call"] == "sfactor") >= 2 and any(c["call"] == "sinit" and c["refact"] for c in h)
    apicheck.run_sessions(ck, 8 if quick else 9, 40 if quick else 800, rng, precs=("d", "z") if quick else ("d", "s", "z", "c"), threads=(1, 2, 3, 4, 8),
                          nmax=24 if quick else 60, hist_filter=refactors, pert=20, simulate=None if quick else 40000)
    forced_reuse(ck, rng, 16 if quick else 160)
    return ck.finish()


def forced_reuse(ck, rng, count):
    """the row order of a first factorization forced on new values (refact + usepr at u = 0, what the header of p?gstrf recommends for that)
    where pivots of the first eliminated columns have become exactly zero: the request must fall back to a valid new order (SluApi!ObsSFactor:
    info = 0 for a nonsingular matrix, factors of the current values); and forced on unchanged values: the order must be kept"""
    import api, tlc, json
    wd = os.path.join(ck.dir, "forced")
    os.makedirs(wd, exist_ok=True)
    tlc.stage(wd)
    items = []
    for i in range(count):
        prec = ("d", "z", "s", "c")[i % 4]
        gen = rng.choice(["mat gen=grid n=16 k=4", "mat gen=grid n=25 k=5", "mat gen=banded n=%d kl=2 ku=2" % rng.randint(6, 24), "mat gen=random n=%d dens=300 fulldiag=1" % rng.randint(6, 24)])
        zp = (0, 1, 2, 3)[(i // 4) % 4]
        txt = "\n".join(["ienv p1=%d p2=%d p3=%d" % (rng.choice([1, 2, 4]), rng.choice([1, 2, 3]), rng.choice([2, 4, 8])), "track on=1",
                         "%s seed=%d stype=NC scale=none vstyle=0" % (gen, rng.randrange(10 ** 6)), "permc order=%d" % rng.choice([-1, 1, 2, 3]),
                         "sinit P=%d refact=0 usepr=0 lwork=0 u=1.0" % rng.choice([1, 2, 4]), "sfactor", "sdropac",
                         ("vals seed=%d zp=%d" % (rng.randrange(10 ** 6), zp)) if zp else "scon norm=1",
                         "sinit P=%d refact=1 usepr=1 lwork=0 u=0.0" % rng.choice([1, 2, 4]), "sfactor",
                         "ssolve trans=%s nrhs=2 pad=1 seed=%d" % (rng.choice(["N", "T"]), rng.randrange(10 ** 6)), "sfinal", "destroy"]) + "\n"
        items.append((i, prec, zp, txt))
    for p in ("d", "z", "s", "c"):
        api.driver(p)

    def one(a):
        i, prec, zp, txt = a
        st, op, err = api.run_script(txt, wd, "f%d" % i, prec=prec)
        v = api.validate_calls(wd, "f%d" % i, op) if st == "exit:0" else None
        return i, prec, zp, txt, st, v, err
    zeroed = 0
    for i, prec, zp, txt, st, v, err in common.pmap(one, items):
        key = "forced:%s:%d:%d" % (prec, zp, i)
        ck.case(key)
        if st != "exit:0":
            ck.violation(key, "forced-reuse session did not run to completion (%s) %s" % (st, err[-300:]), {"script": txt, "precision": prec})
            continue
        zeroed += sum(r.get("zeroed", 0) for r in v["recs"] if r.get("call") == "vals")
        if tlc.inconclusive(v):
            continue
        if not v["ok"]:
            rl = v["rejected_line"]
            rec = v["recs"][rl - 1] if rl and rl <= len(v["recs"]) else None
            ck.violation("forced:%s" % (rec.get("call") if rec else "?"), "precision %s: forced reuse of the row order (u = 0), %d old pivot(s) zeroed: record %s rejected by SluApi (%s): %s" % (
                prec, zp, rl, api.diagnose(rec) if rec else v["errors"][:2], json.dumps(rec)[:500]), {"script": txt, "precision": prec})
        else:
            ck.traces()
    ck.notes["forced_reuse_old_pivots_zeroed"] = zeroed


if __name__ == "__main__":
    sys.exit(main(sys.argv[1] if len(sys.argv) > 1 else "quick"))
