"""C08  Re-factorization and factor reuse stay correct over any call history.

Model: SluApi with value versions: a FACTORED call is legal only for factors of the current
values and must modify neither A, L, U nor the permutations; a refactorization (refact = YES,
with or without usepr) reuses the storage and must solve the CURRENT values.
Binding: TLC enumerates all histories up to depth 4/5 over {mat, vals, gssvx(first | refact |
refact+usepr | FACTORED(trans)), destroy}; the harness gives every version different values, so a
stale factor shows up as a large backward error; thread counts vary between calls; internal and
user workspace.
"""
import sys, os, random
sys.path.insert(0, os.path.join(os.path.dirname(os.path.abspath(__file__)), "..", "lib"))
import common, build, apicheck


def main(tier):
    ck = common.Check("C08", tier, "model_checking")
    rng = random.Random(ck.seed * 1000003 + 8)
    build.ensure("verif")
    ck.cov["rule"] = ("TLC enumerates every legal history of length 4 (quick) / 5 (thorough) over the refactor/reuse alphabet from SluApi; "
                      "a seed-chosen sample is executed with different values per version and validated record by record against SluApiTrace "
                      "(a record of a FACTORED call must show A, L, U, perm_r, perm_c unchanged; every call must solve the current values); "
                      "states/transitions = size of the enumerated history graph; distinct = distinct executed (precision, history)")
    ck.assumptions += ["histories are legal in the sense of the documented preconditions (FACTORED only with factors of the current values; "
                       "refact only after an expert-driver factorization in the same memory mode)"]
    quick = tier == "quick"

    def interesting(h):
        x = [c for c in h if c["call"] == "gssvx"]
        return len(x) >= 2 and any(c["refact"] or c["fact"] == "FACTORED" for c in x)
    apicheck.run_histories(ck, ["mat", "vals", "gssvx", "destroy", "trans", "user", "equil"], 4 if quick else 5, 80 if quick else 1000, rng,
                           precs=("d", "z") if quick else ("d", "s", "z", "c"), threads=(1, 2, 3, 4, 8), nmax=24 if quick else 60,
                           hist_filter=interesting, pert=20)
    # the same property through the computational routines called directly (p?gstrf_init / p?gstrf / ?gstrs / pxgstrf_finalize, the
    # protocol of EXAMPLE/pdrepeat.c): sessions with at least one re-factorization, solves and condition estimates in between

    def refactors(h):
        return sum(1 for c in h if c["call"] == "sfactor") >= 2 and any(c["call"] == "sinit" and c["refact"] for c in h)
    apicheck.run_sessions(ck, 8 if quick else 9, 40 if quick else 800, rng, precs=("d", "z") if quick else ("d", "s", "z", "c"), threads=(1, 2, 3, 4, 8),
                          nmax=24 if quick else 60, hist_filter=refactors, pert=20, simulate=None if quick else 40000)
    return ck.finish()


if __name__ == "__main__":
    sys.exit(main(sys.argv[1] if len(sys.argv) > 1 else "quick"))
