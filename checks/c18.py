"""C18  Calls are independent of what was factored before (no hidden state carry-over).

Model: SluApi: a history = prefix ; probe, where the probe starts with the creation of a fresh
system.  The abstract state after Mat is NoLU whatever the prefix was (Mat resets lu, base is
re-taken): the specification gives the probe the same obligations and the same abstract outcome
as if it ran alone -- hidden state (static GlobalLU_t, expanders, user stack, no_expand, ndim,
whichspace, ?lacon statics, options fields written by the library) is not part of the object.
Binding: TLC enumerates (prefix, probe) histories over the alphabet of C08/C14/C06 (refactor,
FACTORED, user workspace, query, singular, both drivers); the harness runs prefix+probe in one
process and the probe alone in a fresh process, the probe with ONE thread; the records of the
probe calls carry a hash of everything handed back (X bits, info, L/U values and subscripts, both
permutations, rcond, pivot growth, ferr, berr) which must be identical.  SluApiTrace validates
both executions.
"""
import sys, os, random, json
sys.path.insert(0, os.path.join(os.path.dirname(os.path.abspath(__file__)), "..", "lib"))
import common, build, api, tlc


def main(tier):
    ck = common.Check("C18", tier, "model_checking")
    rng = random.Random(ck.seed * 1000003 + 18)
    build.ensure("verif")
    quick = tier == "quick"
    ck.cov["rule"] = ("TLC enumerates all legal histories of length 4 (quick) / 5 (thorough) over {mat, vals, gssv, gssvx(all modes), destroy, "
                      "singular, user, query}; those with >= 2 systems are split at the last `mat` into (prefix, probe); a sample is executed "
                      "as prefix+probe and as probe alone (fresh process, 1 thread, built-in kernels) and the output hashes of the probe calls "
                      "are compared bitwise; distinct = distinct (precision, prefix, probe)")
    ck.assumptions += ["prefix and probe use the same precision (each harness executable links one precision); cross-precision carry-over "
                       "is not exercised", "bitwise comparison with one thread; the library is built with its own kernels (no vendor BLAS)"]
    wd = os.path.join(ck.dir, "api")
    hs, r = api.enumerate_histories(wd, 4 if quick else 5, ["mat", "vals", "gssv", "gssvx", "destroy", "singular", "user", "query", "equil", "trans"],
                                    name="C18", timeout=1500)
    ck.model(r["distinct"], r["generated"])

    def split(h):
        idx = [i for i, c in enumerate(h) if c["call"] == "mat"]
        if len(idx) < 2:
            return None
        pre, pro = h[:idx[-1]], h[idx[-1]:]
        if not any(c["call"] in ("gssv", "gssvx") for c in pre) or not any(c["call"] in ("gssv", "gssvx") for c in pro):
            return None
        return pre, pro
    pairs = [p for p in (split(h) for h in hs) if p]
    ck.notes["prefix_probe_pairs_enumerated"] = len(pairs)
    sample = rng.sample(pairs, min(len(pairs), 60 if quick else 800))
    tlc.stage(wd)
    for p in ("d", "s", "z", "c"):
        api.driver(p)
    items = []
    for i, (pre, pro) in enumerate(sample):
        prec = ("d", "s", "z", "c")[i % 4]
        fix = lambda h: [dict(c, trans="T") if (prec in "cz" and c.get("trans") == "C") else c for c in h]
        pre, pro = fix(pre), fix(pro)
        r1 = random.Random(rng.randrange(10 ** 9))
        r2 = random.Random(rng.randrange(10 ** 9))
        ienv = (r1.choice([1, 2, 4, 8]), r1.choice([1, 2, 4]), r1.choice([2, 4, 8]))
        tight = rng.choice([0, 130, 130, 200])     # user workspaces sized from the library's own estimate
        ptxt = api.script_of(pre, r1, nmax=40, threads=(1, 2, 4), ienv=ienv, tight=tight)
        btxt = api.script_of(pro, r2, nmax=24, threads=(1,), ienv=ienv, tight=tight)
        body = "\n".join(l for l in btxt.splitlines() if not l.startswith("ienv") and not l.startswith("track"))
        items.append((i, pre, pro, prec, ptxt + body + "\n", btxt))

    def one(a):
        i, pre, pro, prec, full, alone = a
        s1, o1, e1 = api.run_script(full, wd, "f%d" % i, prec=prec)
        s2, o2, e2 = api.run_script(alone, wd, "a%d" % i, prec=prec)
        v1 = api.validate_calls(wd, "f%d" % i, o1) if s1 == "exit:0" else None
        v2 = api.validate_calls(wd, "a%d" % i, o2) if s2 == "exit:0" else None
        return a, s1, s2, v1, v2, e1, e2
    for (i, pre, pro, prec, full, alone), s1, s2, v1, v2, e1, e2 in common.pmap(one, items):
        key = "pp:%s:%s|%s" % (prec, json.dumps(pre, sort_keys=True), json.dumps(pro, sort_keys=True))
        ck.case(key, sample={"precision": prec, "prefix": pre, "probe": pro} if len(ck.cov["samples"]) < 3 else None)
        if s2 != "exit:0":
            ck.notes["probe_alone_failed"] = ck.notes.get("probe_alone_failed", 0) + 1
            ck.violation(key, "probe alone did not run to completion (%s): %s" % (s2, e2[-300:]), {"script": alone})
            continue
        if s1 != "exit:0":
            ck.violation(key, "precision %s: the probe ran alone but prefix+probe did not run to completion (%s): prefix %s | %s" % (prec, s1, json.dumps(pre), e1[-300:]),
                         {"script": full})
            continue
        ra = [r for r in v2["recs"] if r.get("call") in ("gssv", "gssvx")]
        rf = [r for r in v1["recs"] if r.get("call") in ("gssv", "gssvx")][-len(ra):] if ra else []
        diff = [(x.get("outh"), y.get("outh"), x.get("info"), y.get("info")) for x, y in zip(rf, ra) if x.get("outh") != y.get("outh") or x.get("info") != y.get("info")]
        if diff:
            ck.violation(key, "precision %s: probe results differ after the prefix %s: (hash, hash alone, info, info alone) = %s" % (prec, json.dumps(pre), diff[:3]),
                         {"script_full": full, "script_alone": alone})
        else:
            ck.traces(2)
    return ck.finish()


if __name__ == "__main__":
    sys.exit(main(sys.argv[1] if len(sys.argv) > 1 else "quick"))
