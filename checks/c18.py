"""C18  Calls are independent of what was factored before (no hidden state carry-over).

Model: SluApi: a history = prefix ; probe, where the probe starts with the creation of a fresh
system.  The abstract state after Mat is NoLU whatever the prefix was (Mat resets lu, base is
re-taken): the specification gives the probe the same obligations and the same abstract outcome
as if it ran alone -- hidden state (static GlobalLU_t, expanders, user stack, no_expand, ndim,
whichspace, ?lacon statics, options fields written by the library) is not part of the object.
Binding: TLC enumerates (prefix, probe) histories over the alphabet of C08/C14/C06 (refactor,
FACTORED, user workspace, query, singular, both drivers); the harness runs prefix+probe in one
process and the probe alone in a fresh process, the probe with ONE thread; the records of the
probe calls carry a hash of everything handed back (X bits, info, L/U values and subscripts, both
permutations, rcond, pivot growth, ferr, berr) which must be identical.  SluApiTrace validates
both executions.
"""
import sys, os, random, json
sys.path.insert(0, os.path.join(os.path.dirname(os.path.abspath(__file__)), "..", "lib"))
import common, build, api, tlc


def main(tier):
    ck = common.Check("C18", tier, "model_checking")
    rng = random.Random(ck.seed * 1000003 + 18)
    build.ensure("verif")
    quick = tier == "quick"
    ck.cov["rule"] = ("TLC enumerates all legal histories of length 4 (quick) / 5 (thorough) over {mat, vals, gssv, gssvx(all modes), destroy, "
                      "singular, user, query}; those with >= 2 systems are split at the last `mat` into (prefix, probe); a sample is executed "
                      "as prefix+probe and as probe alone (fresh process, 1 thread, built-in kernels) and the output hashes of the probe calls "
                      "are compared bitwise; distinct = distinct (precision, prefix, probe)")
    ck.assumptions += ["prefix and probe use the same precision (each harness executable links one precision); cross-precision carry-over "
                       "is not exercised", "bitwise comparison with one thread; the library is built with its own kernels (no vendor BLAS)"]
    wd = os.path.join(ck.dir, "api")
    hs, r = api.enumerate_histories(wd, 4 if quick else 5, ["mat", "vals", "gssv", "gssvx", "destroy", "singular", "user", "query", "equil", "trans"], simulate=None if quick else 4000,
                                    name="C18", timeout=1500)
    ck.model(r["distinct"], r["generated"])

    def split(h):
        idx = [i for i, c in enumerate(h) if c["call"] == "mat"]
        if len(idx) < 2:
            return None
        pre, pro = h[:idx[-1]], h[idx[-1]:]
        if not any(c["call"] in ("gssv", "gssvx") for c in pre) or not any(c["call"] in ("gssv", "gssvx") for c in pro):
            return None
        return pre, pro
    pairs = [p for p in (split(h) for h in hs) if p]
    ck.notes["prefix_probe_pairs_enumerated"] = len(pairs)
    # carry-over needs a medium: half of the sample are pairs in which BOTH the prefix and the probe factorize into the caller's
    # workspace (the one buffer the harness hands to every call without clearing it), the rest is drawn from all pairs
    def ws(h):
        return any(c["call"] == "gssvx" and c.get("lw") == "user" and c.get("fact") != "FACTORED" for c in h)
    both = [p for p in pairs if ws(p[0]) and ws(p[1])]
    ck.notes["pairs_with_workspace_in_prefix_and_probe"] = len(both)
    total = 72 if quick else 800
    sample = rng.sample(both, min(len(both), total // 2))
    rest = [p for p in pairs if p not in sample]
    sample += rng.sample(rest, min(len(rest), total - len(sample)))
    tlc.stage(wd)
    for p in ("d", "s", "z", "c"):
        api.driver(p)
    items = []
    for i, (pre, pro) in enumerate(sample):
        prec = ("d", "s", "d", "z", "c", "d")[i % 6]
        fix = lambda h: [dict(c, trans="T") if (prec in "cz" and c.get("trans") == "C") else c for c in h]
        pre, pro = fix(pre), fix(pro)
        r1 = random.Random(rng.randrange(10 ** 9))
        r2 = random.Random(rng.randrange(10 ** 9))
        ienv = (r1.choice([1, 2, 4, 8]), r1.choice([1, 2, 4]), r1.choice([2, 4, 8]))
        tight = rng.choice([0, 130, 130, 200])     # user workspaces sized from the library's own estimate
        ptxt = api.script_of(pre, r1, nmax=40, threads=(1, 2, 4), ienv=ienv, tight=tight)
        btxt = api.script_of(pro, r2, nmax=24, threads=(1,), ienv=ienv, tight=tight)
        body = "\n".join(l for l in btxt.splitlines() if not l.startswith("ienv") and not l.startswith("track"))
        items.append((i, pre, pro, prec, ptxt + body + "\n", btxt))

    # second family: the probe is the LAST call of a history on the SAME matrix (same buffer sizes, same workspace length): alone =
    # the matrix (and its value changes) followed by that call only.  Carry-over through storage that is laid out identically in
    # both calls (per-thread work arrays in the caller's workspace, static state sized by n) shows here and not in the first family.
    def same_ok(h):
        if sum(1 for c in h if c["call"] == "mat") != 1 or len(h) < 3 or h[0]["call"] != "mat":
            return False
        last = h[-1]
        if last["call"] == "gssvx" and (last["fact"] == "FACTORED" or last["refact"] or last["lw"] == "query"):
            return False
        return last["call"] in ("gssv", "gssvx") and any(c["call"] in ("gssv", "gssvx") and not (c["call"] == "gssvx" and (c["lw"] == "query" or c["fact"] == "FACTORED")) for c in h[1:-1])
    same = [h for h in hs if same_ok(h)]
    ck.notes["same_matrix_histories_enumerated"] = len(same)
    samew = [h for h in same if h[-1]["call"] == "gssvx" and h[-1]["lw"] == "user" and any(c.get("lw") == "user" for c in h[1:-1])]
    ssel = rng.sample(samew, min(len(samew), 24 if quick else 300))
    ssel += rng.sample([h for h in same if h not in ssel], min(len(same) - len(ssel), 12 if quick else 300))
    for k, h in enumerate(ssel):
        i = 10000 + k
        prec = ("d", "s", "d", "z", "c", "d")[k % 6]
        hh = [dict(c, trans="T") if (prec in "cz" and c.get("trans") == "C") else c for c in h]
        r1 = random.Random(rng.randrange(10 ** 9))
        # one fixed workspace length for every call of the history: the per-thread arrays of consecutive calls then overlay each other
        txt = api.script_of(hh, r1, nmax=30, threads=(1, 2, 4), tight=0, scale="none", pert=rng.choice([0, 30, 60]))
        lines = txt.splitlines()
        lines[-1] = " ".join("P=1" if t.startswith("P=") else t for t in lines[-1].split())      # the probe itself single-threaded: bitwise reproducible
        keep = [l for l in lines[:-1] if l.split()[0] in ("ienv", "track", "mat", "permc", "vals")]
        items.append((i, hh[:-1], hh[-1:], prec, "\n".join(lines) + "\n", "\n".join(keep + [lines[-1]]) + "\n"))

    def one(a):
        i, pre, pro, prec, full, alone = a
        s1, o1, e1 = api.run_script(full, wd, "f%d" % i, prec=prec)
        s2, o2, e2 = api.run_script(alone, wd, "a%d" % i, prec=prec)
        v1 = api.validate_calls(wd, "f%d" % i, o1) if s1 == "exit:0" else None
        v2 = api.validate_calls(wd, "a%d" % i, o2) if s2 == "exit:0" else None
        sr = api.validate_stack(wd, "f%d" % i, o1)[0] if s1 == "exit:0" else None     # hidden state of the workspace stack carried between calls
        return a, s1, s2, v1, v2, e1, e2, sr
    for (i, pre, pro, prec, full, alone), s1, s2, v1, v2, e1, e2, sr in common.pmap(one, items):
        key = "pp:%s:%s|%s" % (prec, json.dumps(pre, sort_keys=True), json.dumps(pro, sort_keys=True))
        if sr is not None and not tlc.inconclusive(sr):
            ck.notes["stack_events_validated"] = ck.notes.get("stack_events_validated", 0) + len(sr["events"])
            if not sr["ok"]:
                rl = sr["rejected_line"]
                ck.violation("stack:" + key, "precision %s: the caller's workspace stack left SluStack (%s) at event %s: %s after %s (state carried over from an earlier call?)" % (
                    prec, sr["violated"] or "step not allowed", rl, sr["events"][rl - 1] if rl else "?", sr["events"][rl - 2] if rl and rl > 1 else "start"), {"script_full": full})
        ck.case(key, sample={"precision": prec, "prefix": pre, "probe": pro} if len(ck.cov["samples"]) < 3 else None)
        if s2 != "exit:0":
            ck.notes["probe_alone_failed"] = ck.notes.get("probe_alone_failed", 0) + 1
            ck.violation(key, "probe alone did not run to completion (%s): %s" % (s2, e2[-300:]), {"script": alone})
            continue
        if s1 != "exit:0":
            ck.violation(key, "precision %s: the probe ran alone but prefix+probe did not run to completion (%s): prefix %s | %s" % (prec, s1, json.dumps(pre), e1[-300:]),
                         {"script": full})
            continue
        ra = [r for r in v2["recs"] if r.get("call") in ("gssv", "gssvx")]
        rf = [r for r in v1["recs"] if r.get("call") in ("gssv", "gssvx")][-len(ra):] if ra else []
        diff = [(x.get("outh"), y.get("outh"), x.get("info"), y.get("info")) for x, y in zip(rf, ra) if x.get("outh") != y.get("outh") or x.get("info") != y.get("info")]
        if diff:
            ck.violation(key, "precision %s: probe results differ after the prefix %s: (hash, hash alone, info, info alone) = %s" % (prec, json.dumps(pre), diff[:3]),
                         {"script_full": full, "script_alone": alone})
        else:
            ck.traces(2)
    return ck.finish()


if __name__ == "__main__":
    sys.exit(main(sys.argv[1] if len(sys.argv) > 1 else "quick"))
