"""C13  Refinement returns truthful backward errors and dominating forward bounds.

Model: SluApi.ObsGssvx clauses: the returned berr equals the true componentwise backward error of the
returned X for the EQUILIBRATED system in the REQUESTED transpose sense up to 20 (n+1) eps
(berrdev), and ferr times the customary slack 20 dominates the actual relative error against the
solution the right-hand side was built from (ferrok); SluRefine.tla: ?gsrfs as a state machine (residual with
op(A), at most ITMAX corrections solved with op(A), the estimator's kase = 1 product solved with the
transposed operator and kase = 2 with op(A), the kase sequence a path of SluLacon, every column
restarting all counters) -- TLC checks termination and the bounds on the model, and every real
?gsrfs call recorded through --wrap of sp_?gemv / ?gstrs / ?lacon must be a path of it (RfsOK).
Binding: expert-driver histories over all trans / storage / equilibration combinations, several
right-hand sides, thresholds 0.1..1, four precisions; oracle = long-double residuals.
"""
import sys, os, random
sys.path.insert(0, os.path.join(os.path.dirname(os.path.abspath(__file__)), "..", "lib"))
import common, build, apicheck, tlc, lacon
import glob, json


def first_column_corrections(r):
    n = 0
    for e in r["ev"]:
        if e[0] == 3:
            break
        if e[0] == 2:
            n += 1
    return n


def main(tier):
    ck = common.Check("C13", tier, "model_checking")
    rng = random.Random(ck.seed * 1000003 + 13)
    build.ensure("verif")
    quick = tier == "quick"
    ck.cov["rule"] = ("expert-driver histories (depth 3) enumerated by TLC from SluApi over {mat(NC|NR), vals, gssvx(DOFACT|EQUILIBRATE|FACTORED x N|T|C), "
                      "destroy}; every record carries berr/ferr compared with the long-double true backward / forward errors; "
                      "distinct = distinct (precision, history); non-trivial = contains a solve with nrhs >= 1")
    ck.assumptions += ["claims asserted for condition numbers below 1e8 (well inside cond < 1/sqrt(eps) resp. 0.1/eps for double; for single precision "
                       "the generated matrices have cond << 1/sqrt(eps) as well)",
                       "the two inequalities are evaluated by the harness oracle (long double), TLC asserts them on the logged ratios"]
    seen = {}
    selftest_ok = [True]

    def judge(h, recs):
        for r in recs:
            if r.get("call") == "gssvx" and r.get("berrdev", -1) >= 0:
                seen[(r["trans"], r["stype"], r["equed"], r["fact"])] = 1
        return None
    apicheck.run_histories(ck, ["mat", "vals", "gssvx", "destroy", "equil", "trans"], 3, 80 if quick else 800, rng, precs=("d", "s", "z", "c"),
                           threads=(1, 2, 4), nmax=24 if quick else 50, validate_pipe=False, extra_judge=judge,
                           hist_filter=lambda h: any(c["call"] == "gssvx" for c in h))
    ck.notes["(trans, storage, equed, fact) combinations with a refined solve"] = len(seen)
    # (2) the refinement loop as a protocol: model, then every real ?gsrfs call against it
    wd = os.path.join(ck.dir, "rfs")
    os.makedirs(wd, exist_ok=True)
    tlc.stage(wd)
    for nr, op in ((0, 0), (1, 0), (2, 1), (3, 2)):
        name = "MCRfs_%d_%d" % (nr, op)
        with open(os.path.join(wd, name + ".tla"), "w") as f:
            f.write("---- MODULE %s ----\nEXTENDS SluRefine\n====\n" % name)
        cfg = os.path.join(wd, name + ".cfg")
        with open(cfg, "w") as f:
            f.write("CONSTANTS NGt1 = TRUE ITMAX = 5 NRhs = %d Op = %d\nSPECIFICATION RSpec\nINVARIANTS RBounded RTypeOK\nPROPERTY RTerminates\nCHECK_DEADLOCK FALSE\n" % (nr, op))
        r = tlc.run(wd, name, cfg, timeout=600)
        ck.model(r["distinct"], r["generated"])
        ck.case("rfsmodel:%d:%d" % (nr, op))
        if not r["ok"]:
            ck.violation("rfsmodel:%d:%d" % (nr, op), "SluRefine (NRhs=%d, Op=%d) violates %s" % (nr, op, r["violated"] or r["errors"][:2]))
    # right-hand sides that use ALL ITMAX refinement steps: arrow matrices in natural order, u = 0, a tiny leading entry (inaccurate factors of a
    # well-conditioned matrix); only the protocol of these calls is judged (after every correction a new residual, then the estimator)
    apidir = os.path.join(ck.dir, "api")
    os.makedirs(apidir, exist_ok=True)
    import api as _api
    its = []
    for i in range(12 if quick else 96):
        prec = ("d", "z", "d", "s")[i % 4]
        tiny = rng.choice([44, 46, 48, 50]) if prec in "dz" else rng.choice([18, 20, 22])
        its.append((i, prec, "\n".join(["ienv p1=2 p2=1 p3=4", "mat gen=arrow n=%d last=0 seed=%d stype=NC scale=none vstyle=0 tiny=%d" % (rng.randint(12, 40), rng.randrange(10 ** 6), tiny),
                                        "permc order=-1", "gssvx P=%d fact=DOFACT trans=%s nrhs=2 u=0.0 seed=%d" % (rng.choice([1, 2]), rng.choice(["N", "T"]), rng.randrange(10 ** 6))]) + "\n"))
    for p_ in set(x[1] for x in its):
        _api.driver(p_)
    for i, prec, st, op in common.pmap(lambda a: (a[0], a[1]) + tuple(_api.run_script(a[2], apidir, "h_itmax%d" % a[0], prec=a[1])[:2]), its):
        ck.case("itmax:%s:%d" % (prec, i))
    recs = []
    for f in glob.glob(os.path.join(ck.dir, "api", "h*.ndjson")):
        if f.endswith(".calls.ndjson") or ".ev." in f:
            continue
        recs += lacon.rfs_records(f)
    ck.notes["gsrfs_protocol_records"] = len(recs)
    ck.notes["gsrfs_records_with_ITMAX_corrections"] = sum(1 for r in recs if first_column_corrections(r) >= 5)
    if recs:
        bad, states, errors = tlc.validate_records(wd, "rfs", "SluRefineTrace", recs, constants="CONSTANTS NGt1 = TRUE ITMAX = 5 NRhs = 1 Op = 0")
        ck.model(states, states)
        for e in errors:
            ck.violation("rfs:tlc", "TLC error on the refinement records: %s" % e)
        for i, r in enumerate(recs):
            ck.case("gsrfs:%d:%s" % (i, json.dumps(r)[:100]), sample=r if i < 2 else None)
            if i in bad:
                ck.violation("gsrfs:protocol", "a real ?gsrfs call is not a path of SluRefine (operator of a residual / correction / estimator solve, "
                             "more than ITMAX corrections, or a broken estimator sequence): %s" % json.dumps(r)[:700], {"record": r})
            else:
                ck.traces()
        # binding self-test: corrupted copies of real records must be rejected (a specification that accepts everything binds nothing)
        import copy
        cor = []
        base = [r for r in recs if any(e[0] == 2 for e in r["ev"])][:3]
        for k, r0 in enumerate(base):
            r = copy.deepcopy(r0)
            if k == 0:
                for e in r["ev"]:
                    if e[0] == 2:
                        e[1] = 1 if e[1] == 0 else 0          # a solve with the other operator
                        break
            elif k == 1:
                r["ev"] = r["ev"][:-1]                            # estimator sequence cut short
            else:
                r["ev"] = [[1, r["ev"][0][1], 0], [2, r["op"], 0]] * 7 + r["ev"]    # seven corrections
            cor.append(r)
        if cor:
            cb, _, _ = tlc.validate_records(wd, "rfsself", "SluRefineTrace", cor, constants="CONSTANTS NGt1 = TRUE ITMAX = 5 NRhs = 1 Op = 0")
            ck.notes["binding_selftest_corrupted_records_rejected"] = "%d of %d" % (len(cb), len(cor))
            if len(cb) != len(cor):
                selftest_ok[0] = False
    else:
        ck.violation("gsrfs:none", "no ?gsrfs protocol record was captured")
    rc = ck.finish()
    if not selftest_ok[0]:
        print("SELFTEST-FAIL: corrupted ?gsrfs records were accepted: %s" % ck.notes.get("binding_selftest_corrupted_records_rejected"))
        return 3
    return rc


if __name__ == "__main__":
    sys.exit(main(sys.argv[1] if len(sys.argv) > 1 else "quick"))
