"""C13  Refinement returns truthful backward errors and dominating forward bounds.

Model: SluApi.ObsGssvx clauses: the returned berr equals the true componentwise backward error of the
returned X for the EQUILIBRATED system in the REQUESTED transpose sense up to 20 (n+1) eps
(berrdev), and ferr times the customary slack 20 dominates the actual relative error against the
solution the right-hand side was built from (ferrok); SluLacon for the estimator used by ?gsrfs.
Binding: expert-driver histories over all trans / storage / equilibration combinations, several
right-hand sides, thresholds 0.1..1, four precisions; oracle = long-double residuals.
"""
import sys, os, random
sys.path.insert(0, os.path.join(os.path.dirname(os.path.abspath(__file__)), "..", "lib"))
import common, build, apicheck


def main(tier):
    ck = common.Check("C13", tier, "exploration")
    rng = random.Random(ck.seed * 1000003 + 13)
    build.ensure("verif")
    quick = tier == "quick"
    ck.cov["rule"] = ("expert-driver histories (depth 3) enumerated by TLC from SluApi over {mat(NC|NR), vals, gssvx(DOFACT|EQUILIBRATE|FACTORED x N|T|C), "
                      "destroy}; every record carries berr/ferr compared with the long-double true backward / forward errors; "
                      "distinct = distinct (precision, history); non-trivial = contains a solve with nrhs >= 1")
    ck.assumptions += ["claims asserted for condition numbers below 1e8 (well inside cond < 1/sqrt(eps) resp. 0.1/eps for double; for single precision "
                       "the generated matrices have cond << 1/sqrt(eps) as well)",
                       "the two inequalities are evaluated by the harness oracle (long double), TLC asserts them on the logged ratios"]
    seen = {}

    def judge(h, recs):
        for r in recs:
            if r.get("call") == "gssvx" and r.get("berrdev", -1) >= 0:
                seen[(r["trans"], r["stype"], r["equed"], r["fact"])] = 1
        return None
    apicheck.run_histories(ck, ["mat", "vals", "gssvx", "destroy", "equil", "trans"], 3, 80 if quick else 800, rng, precs=("d", "s", "z", "c"),
                           threads=(1, 2, 4), nmax=24 if quick else 50, validate_pipe=False, extra_judge=judge,
                           hist_filter=lambda h: any(c["call"] == "gssvx" for c in h))
    ck.notes["(trans, storage, equed, fact) combinations with a refined solve"] = len(seen)
    return ck.finish()


if __name__ == "__main__":
    sys.exit(main(sys.argv[1] if len(sys.argv) > 1 else "quick"))
