"""C20  File readers return exactly the matrix a well-formed file encodes.

Model: SluFiles.tla -- ReaderOK: dimensions, count and column-compressed arrays returned by the
reader represent exactly the entries of the abstract matrix with exactly the printed values
(symmetric / skew files: the expansion).
Binding: the harness renders abstract matrices (n <= 6, values multiples of 1/8) as
Harwell-Boeing, Rutherford-Boeing and the library's column-list ("MT") text, with varying
fixed-width integer descriptors, E / D / F real descriptors, with and without the right-hand-side
header card, and feeds them on stdin to the real ?readhb / ?readrb / ?readmt in four precisions
(harness/drv_files.c); TLC evaluates ReaderOK on every case.
Readers present in this tree: HB, RB and the column-list format; there is no coordinate (triplet)
reader (?readtriple is only named in dead #else branches of two examples), so that clause of the
property has nothing to bind to.
"""
import sys, os, random, subprocess, json
sys.path.insert(0, os.path.join(os.path.dirname(os.path.abspath(__file__)), "..", "lib"))
import common, build, tlc

PRECS = {"s": 1, "d": 2, "c": 3, "z": 4}


def fmt_ints(vals, per, w):
    out = []
    for i in range(0, len(vals), per):
        out.append("".join(str(v).rjust(w) for v in vals[i:i + per]))
    return out


def fmt_reals(vals, per, w, d, kind):
    out = []
    for i in range(0, len(vals), per):
        line = ""
        for v in vals[i:i + per]:
            if kind == "F":
                s = ("%*.*f" % (w, d, v))
            else:
                s = ("%*.*E" % (w, d, v))
                if kind == "D":
                    s = s.replace("E", "D")
            line += s.rjust(w)
        out.append(line)
    return out


def render_hb(case, rng, rb=False):
    n, m, ents, cplx = case["n"], case["m"], case["ent"], case["cplx"]
    colptr, rowind, vals = [1], [], []
    for j in range(1, n + 1):
        for e in [x for x in ents if x[1] == j]:
            rowind.append(e[0])
            vals.append(e[2] / 1024.0)
            if cplx:
                vals.append(e[3] / 1024.0)
        colptr.append(len(rowind) + 1)
    pw, pp = rng.choice([(8, 10), (5, 16), (20, 4), (6, 12)])
    iw, ip = rng.choice([(8, 10), (5, 16), (10, 8), (4, 20)])
    if rng.random() < 0.35:      # tight descriptors: the widest value fills its field, fields abut without a blank
        pw = len(str(max(colptr)))
        pp = rng.choice([80 // pw, max(1, 40 // pw)])
    if rng.random() < 0.35 and rowind:
        iw = len(str(max(rowind)))
        ip = rng.choice([80 // iw, max(1, 40 // iw)])
    kind = rng.choice(["E", "E", "D", "F"])
    vw, vd, vp = rng.choice([(20, 10, 4), (16, 8, 5), (26, 16, 3), (14, 6, 5)]) if kind != "F" else rng.choice([(12, 4, 6), (20, 6, 4), (10, 3, 8)])
    pl, il, vl = fmt_ints(colptr, pp, pw), fmt_ints(rowind, ip, iw), fmt_reals(vals, vp, vw, vd, kind)
    rhs = rng.choice([0, 0, 1]) if not rb else 0
    typ = ("C" if cplx else "R") + case["sym"] + "A"
    title = ("verif case %s" % case["id"]).ljust(72) + "VERIF".ljust(8)
    lines = [title]
    tot = len(pl) + len(il) + len(vl) + (1 if rhs else 0)
    if rb:
        lines.append("%14d%14d%14d%14d" % (tot, len(pl), len(il), len(vl)))
    else:
        # RHSCRD: a blank field is legal (Fortran reads a blank I14 as 0)
        lines.append(("%14d%14d%14d%14d" % (tot, len(pl), len(il), len(vl))) + ("%14d" % (1 if rhs else 0) if (rhs or rng.random() < 0.6) else " " * 14))
    lines.append(typ + " " * 11 + "%14d%14d%14d%14d" % (m, n, len(rowind), 0))
    f1, f2, f3 = "(%dI%d)" % (pp, pw), "(%dI%d)" % (ip, iw), "(%d%s%d.%d)" % (vp, kind, vw, vd)
    if rb:
        lines.append(f1.ljust(16) + f2.ljust(16) + f3.ljust(20))
    else:
        lines.append(f1.ljust(16) + f2.ljust(16) + f3.ljust(20) + (f3 if rhs else "").ljust(20))
        if rhs:
            lines.append("F" + " " * 13 + "%14d%14d" % (1, 0))
    lines += pl + il + vl
    if rhs:
        lines += fmt_reals([1.0] * (2 * m if cplx else m), vp, vw, vd, kind)[:1]
    return "\n".join(lines) + "\n", {"ptr": f1, "ind": f2, "val": f3, "rhs": rhs}


def render_mt(case):
    n, m, ents, cplx = case["n"], case["m"], case["ent"], case["cplx"]
    lines = ["verif case %s" % case["id"], "%d %d %d" % (m, n, len(ents))]
    for j in range(1, n + 1):
        col = [e for e in ents if e[1] == j]
        lines.append("%d" % len(col))
        for e in col:
            lines.append(("%d %.6f %.6f" % (e[0], e[2] / 1024.0, e[3] / 1024.0)) if cplx else ("%d %.6f" % (e[0], e[2] / 1024.0)))
    return "\n".join(lines) + "\n", {}


def gen_case(rng, idx, cplx, sym):
    n = rng.randint(1, 6)
    # general (unsymmetric-storage) files may be rectangular: a third of them have nrow != ncol
    m = n if (sym != "U" or rng.random() < 0.66) else rng.choice([x for x in range(1, 8) if x != n])
    ents = []
    for j in range(1, n + 1):
        rows = sorted(r for r in range(1, m + 1) if rng.random() < 0.5 and (sym == "U" or r >= j))
        if not rows:
            rows = [min(j, m)]
        for r in rows:
            if sym == "Z" and r == j:
                continue
            ents.append([r, j, 128 * rng.randint(-40, 40) or 128, (128 * rng.randint(-20, 20)) if cplx else 0])
    return {"id": idx, "m": m, "n": n, "ent": ents, "cplx": cplx, "sym": sym}


def main(tier):
    ck = common.Check("C20", tier, "exploration")
    rng = random.Random(ck.seed * 1000003 + 20)
    build.ensure("verif")
    quick = tier == "quick"
    ck.cov["rule"] = ("random abstract matrices (n <= 6, values k/8) x format (HB, RB, column list) x descriptor variant x precision; each file is "
                      "read by the real reader, TLC evaluates SluFiles!ReaderOK; symmetric files are a separate family; distinct = distinct cases")
    ck.assumptions += ["the file text is rendered by the harness (trusted writer), the specification states which arrays must come back",
                       "only line widths <= 80 and explicit-width I/E/D/F descriptors; no triplet reader exists in this tree"]
    wd = os.path.join(ck.dir, "files")
    os.makedirs(wd, exist_ok=True)
    tlc.stage(wd)
    exes = {p: build.harness("drv_files_" + p, ["drv_files.c", "verif_rt.c"], defines=["PREC=%d" % PRECS[p]]) for p in PRECS}
    recs, symrecs = [], []
    count = 160 if quick else 2000
    for i in range(count):
        prec = ("d", "s", "z", "c")[i % 4]
        cplx = prec in "cz"
        fmt = ("hb", "rb", "mt")[(i // 4) % 3]
        sym = "U" if (i % 10 or fmt == "mt") else rng.choice(["S", "Z"])
        case = gen_case(rng, i, cplx, sym)
        text, info = render_mt(case) if fmt == "mt" else render_hb(case, rng, rb=(fmt == "rb"))
        path = os.path.join(wd, "f%d.%s" % (i, fmt))
        open(path, "w").write(text)
        outp = os.path.join(wd, "o%d.json" % i)
        if os.path.exists(outp):
            os.remove(outp)
        with open(path) as fin:
            p = subprocess.run([exes[prec], fmt, outp], stdin=fin, stdout=subprocess.DEVNULL, stderr=subprocess.PIPE, timeout=60)
        try:
            out = json.loads(open(outp).read().strip())
        except Exception:
            out = None
        rec = {"id": i, "prec": prec, "fmt": fmt, "sym": sym, "m": case["m"], "n": case["n"], "ent": case["ent"], "desc": info, "out": out}
        if out is None:
            ck.case("file:%d" % i)
            ck.violation("read:%s:%s" % (fmt, info), "precision %s: reader ?read%s failed on a well-formed file (exit %s): %s | %s" % (prec, fmt, p.returncode, p.stderr[-200:], path), {"file": path})
            continue
        (symrecs if sym != "U" else recs).append(rec)
    bad, states, errors = tlc.validate_records(wd, "files", "SluFilesTrace", recs)
    ck.model(states, states)
    for e in errors:
        ck.violation("files:tlc", "TLC error: %s" % e)
    for i, r in enumerate(recs):
        ck.case("file:%s:%s:%d" % (r["prec"], r["fmt"], r["id"]), sample={k: r[k] for k in ("prec", "fmt", "n", "desc", "ent")} if len(ck.cov["samples"]) < 3 else None)
        if i in bad:
            ck.violation("file:%s:%s" % (r["fmt"], r["desc"].get("val", "")), "precision %s: ?read%s returned a different matrix than the file encodes: %s" % (r["prec"], r["fmt"], json.dumps(r)[:900]), {"record": r})
        else:
            ck.traces()
    if symrecs:
        sbad, st2, err2 = tlc.validate_records(wd, "filesym", "SluFilesTrace", symrecs, max_bad=2)
        ck.model(st2, st2)
        for r in symrecs:
            ck.case("symfile:%d" % r["id"])
        if sbad:
            r = symrecs[sbad[0]]
            ck.violation("symfile:%s" % r["fmt"], "precision %s: ?read%s does not expand a symmetric/skew file (type %s): %s" % (r["prec"], r["fmt"], r["sym"], json.dumps(r)[:500]), {"record": r})
    return ck.finish()


if __name__ == "__main__":
    sys.exit(main(sys.argv[1] if len(sys.argv) > 1 else "quick"))
