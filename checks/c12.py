"""C12  Condition estimate and pivot growth are sound.

Model: SluLacon.tla -- the reverse-communication estimator as a state machine (terminates within 12
calls, kase sequence 1,2,(1,2)*,1,0, no static read before it is written since kase = 0) checked by
TLC for n = 1 and n > 1; SluApi.ObsGssvx -- info = n+1 exactly when rcond < eps (X, ferr, berr still
produced), 1/(||A|| ||inv(A)||) <= rcond <= 1/(||A|| ||inv(A) e/n||) in the 1-norm when A X = B is
solved and the infinity-norm for the transposed system (user's matrix, after equilibration), and
the reciprocal pivot growth recomputed from the returned factors.
Binding: (1) the real ?gscon is observed through --wrap of ?lacon_, sp_?trsv and ?gscon itself: the
kase values of every call and the triangular solves in between must be accepted by SluLacon
(Accepts, SolvesOK); (2) expert-driver histories on badly scaled / graded matrices, all trans /
storage / equilibration options, four precisions, validated against SluApiTrace.
"""
import sys, os, random, glob, json
sys.path.insert(0, os.path.join(os.path.dirname(os.path.abspath(__file__)), "..", "lib"))
import common, build, tlc, apicheck, lacon


def model(ck):
    wd = os.path.join(ck.dir, "lac")
    tlc.stage(wd)
    for n in ("TRUE", "FALSE"):
        cfg = os.path.join(wd, "L_%s.cfg" % n)
        with open(cfg, "w") as f:
            f.write("CONSTANT NGt1 = %s\nSPECIFICATION Spec\nINVARIANTS Bounded KaseOK\nPROPERTY Terminates\n" % n)
        r = tlc.run(wd, "SluLacon", cfg, workers=1, timeout=120)
        ck.model(r["distinct"], r["generated"])
        ck.case("lacon-model:%s" % n)
        if not r["ok"]:
            ck.violation("lacon-model:%s" % n, "SluLacon violates %s" % (r["violated"] or r["errors"][:2]))


def main(tier):
    ck = common.Check("C12", tier, "exploration")
    rng = random.Random(ck.seed * 1000003 + 12)
    build.ensure("verif")
    quick = tier == "quick"
    ck.cov["rule"] = ("(1) TLC model check of the estimator state machine; (2) one protocol record per real ?gscon call (kase in/out of every "
                      "?lacon call, solves in between), validated by TLC; (3) expert-driver histories (depth 3) on scaled/graded matrices, "
                      "sandwich / info rule / pivot growth asserted by SluApiTrace from long-double oracle ratios; distinct = records + histories")
    ck.assumptions += ["the sandwich is asserted (10 % slack for the rounding of the estimate) when the condition number of the equilibrated matrix "
                       "is below 1e8; above that only the info = n+1 rule is asserted", "complex magnitudes in the pivot growth are |re|+|im| as in the library"]
    model(ck)
    apicheck.run_histories(ck, ["mat", "vals", "gssvx", "destroy", "equil", "trans", "user"], 3, 70 if quick else 700, rng, precs=("d", "s", "z", "c"),
                           threads=(1, 2, 4), nmax=24 if quick else 50, validate_pipe=False,
                           hist_filter=lambda h: any(c["call"] == "gssvx" for c in h))
    recs = []
    for f in glob.glob(os.path.join(ck.dir, "api", "h*.ndjson")):
        if f.endswith(".calls.ndjson") or ".ev." in f:
            continue
        recs += lacon.gscon_records(f)
    ck.notes["gscon_protocol_records"] = len(recs)
    if recs:
        bad, states, errors = tlc.validate_records(os.path.join(ck.dir, "lac"), "gs", "SluLaconTrace", recs, constants="CONSTANT NGt1 = TRUE")
        ck.model(states, states)
        for e in errors:
            ck.violation("lacon:tlc", "TLC error on the protocol records: %s" % e)
        for i, r in enumerate(recs):
            ck.case("gscon:%d:%s" % (i, json.dumps(r)[:80]), sample=r if len(ck.cov["samples"]) < 4 else None)
            if i in bad:
                ck.violation("gscon:protocol", "a real ?gscon call does not follow the estimator protocol of SluLacon: %s" % json.dumps(r)[:600], {"record": r})
            else:
                ck.traces()
    else:
        ck.violation("gscon:none", "no ?gscon protocol record was captured")
    return ck.finish()


if __name__ == "__main__":
    sys.exit(main(sys.argv[1] if len(sys.argv) > 1 else "quick"))
