"""C11  Equilibration: scale factors, application rule and reported flag agree.

Model: SluEquil.tla -- on matrices with entries 0 or +-2^e all of ?gsequ / ?laqgs is integer
arithmetic on exponents: R_i = 1/clip(row max), C_j = 1/clip(max_i R_i |a_ij|), rowcnd, colcnd,
amax, the 0.1 thresholds and the SMALL/LARGE test of ?laqgs, clipping at the safe minimum /
maximum, underflow of a product, index of an exactly zero row / column, and the scaled matrix.
Binding: harness/drv_equil.c runs the real routines on EVERY such matrix with m = n <= 2 over a
set of exponents spanning the exponent range (plus absent and explicit-zero entries) and on random
3x3 and 4x4 ones, in four precisions; every output is compared EXACTLY (exponents and flags) by TLC.
The driver-level rule (A_out = diag(R)^a A diag(C)^b, B scaled by the matching factor, bit-identity
with flag = none, both storage orientations and transpose options) is asserted on every
expert-driver record by SluApiTrace (clauses Aok/Bok/Aunch) on badly scaled random matrices.
"""
import sys, os, random, subprocess
sys.path.insert(0, os.path.join(os.path.dirname(os.path.abspath(__file__)), "..", "lib"))
import common, build, tlc, apicheck

PRECS = {"s": 1, "d": 2, "c": 3, "z": 4}
CONSTS = {"d": (-1022, -52, -1074, 1023), "z": (-1022, -52, -1074, 1023), "s": (-126, -23, -149, 127), "c": (-126, -23, -149, 127)}
EXPS = {"d": "-1060,-1000,-30,-4,-3,0,3,30,1000", "z": "-1060,-30,-4,-3,0,3,1000", "s": "-140,-100,-20,-4,-3,0,3,20,100", "c": "-140,-20,-4,-3,0,3,100"}


def main(tier):
    ck = common.Check("C11", tier, "model_checking")
    rng = random.Random(ck.seed * 1000003 + 11)
    build.ensure("verif")
    quick = tier == "quick"
    ck.cov["rule"] = ("exact domain: every 1x1 and 2x2 matrix over the exponent set of the precision (plus absent / explicit zero entries), random "
                      "3x3 and 4x4; one record per matrix with the exponents of R, C, rowcnd, colcnd, amax, info, equed and the scaled entries, "
                      "compared exactly by TLC with SluEquil!Expected; driver rule: expert-driver histories on badly scaled matrices; "
                      "distinct = distinct (precision, matrix) + (precision, history)")
    ck.assumptions += ["on the exact domain nothing is rounded, so equality is bitwise; general matrices are covered through the driver-level clauses "
                       "(relation to a few ulp, bit-identity when nothing is applied)"]
    wd = os.path.join(ck.dir, "eq")
    os.makedirs(wd, exist_ok=True)
    tlc.stage(wd)
    plan = []
    for prec in ("d", "s", "z", "c"):
        plan += [(prec, 1, "all", 0), (prec, 2, "all", 0), (prec, 3, "rand", 300 if quick else 5000), (prec, 4, "rand", 100 if quick else 2000)]

    def one(a):
        i, (prec, n, mode, cnt) = a
        exe = build.harness("drv_equil_" + prec, ["drv_equil.c", "verif_rt.c"], defines=["PREC=%d" % PRECS[prec]])
        f = os.path.join(wd, "e%d.ndjson" % i)
        exps = EXPS[prec] if not (quick and n == 2 and prec in ("d", "s")) else EXPS[prec].replace("-1000,", "").replace("-100,", "")
        p = subprocess.run([exe, f, str(n), mode, str(cnt), str(ck.seed + i), exps], capture_output=True, text=True, timeout=1200)
        mod = "TREq_%d" % i
        with open(os.path.join(wd, mod + ".tla"), "w") as fh:
            c = CONSTS[prec]
            fh.write("---- MODULE %s ----\nEXTENDS SluEquilTrace\ncSMin == 0 - %d\ncPrec == 0 - %d\ncMinSub == 0 - %d\ncMaxExp == %d\n====\n" % (mod, -c[0], -c[1], -c[2], c[3]))
        cfg = os.path.join(wd, mod + ".cfg")
        c = CONSTS[prec]
        with open(cfg, "w") as fh:
            fh.write("CONSTANT SMin <- cSMin\nCONSTANT PrecExp <- cPrec\nCONSTANT MinSub <- cMinSub\nCONSTANT MaxExp <- cMaxExp\nSPECIFICATION TSpec\nCONSTRAINT Progress\nPOSTCONDITION Accepted\nCHECK_DEADLOCK FALSE\n")
        r = tlc.run(wd, mod, cfg, timeout=3000, env={"TRACE": f}, xmx="3g")
        return a, f, r, p.returncode
    for (i, (prec, n, mode, cnt)), f, r, rc in common.pmap(one, list(enumerate(plan)), workers=8):
        nrec = sum(1 for _ in open(f)) if os.path.exists(f) else 0
        key = "equil:%s:n%d:%s" % (prec, n, mode)
        ck.model(r["distinct"], r["generated"])
        ck.cov["evaluations"] += nrec
        if rc != 0 or nrec == 0:
            ck.violation(key, "equilibration driver failed (exit %s)" % rc)
        elif r["ok"]:
            ck.traces(nrec)
            for k in range(nrec):
                ck.distinct.add("%s:%d" % (key, k))
            if len(ck.cov["samples"]) < 3:
                ck.cov["samples"].append(open(f).readlines()[min(nrec - 1, 17)].strip()[:500])
            os.remove(f)
        else:
            ln = open(f).readlines()[r["rejected_line"] - 1].strip() if r["rejected_line"] else str(r["errors"][:2])
            ck.violation("equil:" + ln[:200], "record differs from SluEquil!Expected: " + ln[:900], {"records": f})
    apicheck.run_histories(ck, ["mat", "vals", "gssvx", "destroy", "equil", "trans"], 3, 120 if quick else 1200, rng, precs=("d", "s", "z", "c"),
                           threads=(1, 2), nmax=20, validate_pipe=False,
                           hist_filter=lambda h: any(c["call"] == "gssvx" and c["fact"] == "EQUILIBRATE" for c in h))
    # an exactly zero row or column: ?gsequ reports it, nothing is scaled and the flag must say so -- also when the caller's equed variable
    # still holds BOTH / ROW / COL from an equilibrating call on the previous system
    def stale_then_zero(h):
        mats = [i for i, c in enumerate(h) if c["call"] == "mat"]
        return (len(mats) == 2 and not h[mats[0]].get("sing") and h[mats[1]].get("sing") and mats[1] == 2 and len(h) == 4
                and all(c["call"] == "gssvx" and c["fact"] == "EQUILIBRATE" and c["lw"] == "sys" for c in (h[1], h[3])))
    apicheck.run_histories(ck, ["mat", "gssvx", "equil", "trans", "singular"], 4, 24 if quick else 240, rng, precs=("d", "s", "z", "c"),
                           threads=(1, 2), nmax=16, validate_pipe=False, hist_filter=stale_then_zero, tag="_zero")
    return ck.finish()


if __name__ == "__main__":
    sys.exit(main(sys.argv[1] if len(sys.argv) > 1 else "quick"))
