"""C14  Workspace modes and allocation failure are handled without corruption.

Model: SluMem.tla (the caller's workspace as the two-ended stack of p?memory.c: integer and real work arrays of
running workers pairwise disjoint, aligned and inside the buffer for every interleaving of worker start /
finish, for buffers at an aligned and at an odd address; the pre-repair "release at the first exit" policy
violates it -- F13 -- and so does the pre-repair alignment of the real array in a second critical section -- F24), SluApi (query: no
factorization, positive estimate, nothing retained; user workspace: factors inside the buffer,
nothing outside written; failure: info > n or the library's diagnostic exit, never success).
Binding (fault enumeration derived from the model's request sequence):
 (1) histories with query / user workspace validated against SluApiTrace (guard zones, inside);
 (2) user mode vs internal mode: same script, one thread, outputs bitwise equal;
 (3) every workspace size class from 10 % to 200 % of the library's own estimate, P in 1..4;
 (3b) a re-factorization in the workspace of the first factorization with more threads than the first call (the factors at the head
     stay accounted for: SluStack!Reuse in the context "re-factorization", never Setup);
 (4) for five kinds of driver call, failure of allocation request k and all later ones for
     k = 1..K (K measured by a recording run; every k in thorough, every 3rd in quick), under
     ASan/UBSan: the outcome must be the library's diagnostic exit, info > n, or a fully valid
     record -- never a signal, a hang, or an invalid "success".
"""
import sys, os, random, json
sys.path.insert(0, os.path.join(os.path.dirname(os.path.abspath(__file__)), "..", "lib"))
import common, build, tlc, api, apicheck


def mem_model(ck):
    wd = os.path.join(ck.dir, "mem")
    tlc.stage(wd)
    res = {}
    # (tail policy, alignment policy, offset of the buffer from an 8-byte boundary in 4-byte units, P, size, head, integer array, real array)
    for pol, al, off, P, size, head, ineed, dneed in (("last", "inside", 1, 3, 30, 3, 2, 4), ("last", "inside", 0, 3, 30, 3, 2, 4), ("last", "inside", 1, 4, 26, 2, 1, 2),
                                                     ("last", "inside", 1, 3, 17, 3, 2, 4), ("last", "second", 0, 3, 30, 3, 2, 4),
                                                     ("first", "inside", 1, 3, 30, 3, 2, 4), ("last", "second", 1, 3, 30, 3, 2, 4)):
        cfg = os.path.join(wd, "M_%s_%s_%d_%d_%d.cfg" % (pol, al, off, P, size))
        with open(cfg, "w") as f:
            f.write('CONSTANTS P = %d Size = %d HeadNeed = %d INeed = %d DNeed = %d Off = %d TailPolicy = "%s" AlignPolicy = "%s"\nSPECIFICATION Spec\n'
                    'INVARIANTS StackOK WorkDisjoint WorkInside WorkAligned AllReleased\nCHECK_DEADLOCK FALSE\n' % (P, size, head, ineed, dneed, off, pol, al))
        r = tlc.run(wd, "SluMem", cfg, workers=2, timeout=300)
        ck.model(r["distinct"], r["generated"])
        key = "mem:%s:%s:off%d:P%d:size%d" % (pol, al, off, P, size)
        ck.case(key)
        # the code as it is (release at the last exit, alignment inside one request) and the old alignment on an aligned buffer must hold
        if pol == "last" and (al == "inside" or off == 0) and not r["ok"]:
            ck.violation(key, "SluMem violates %s" % (r["violated"] or r["errors"][:2]))
        if pol == "first":
            res["model_rejects_release_at_first_exit"] = bool(r["violated"])
        if al == "second" and off == 1:
            res["model_rejects_alignment_in_a_second_critical_section"] = bool(r["violated"])
    ck.notes.update(res)
    return res.get("model_rejects_release_at_first_exit", False) and res.get("model_rejects_alignment_in_a_second_critical_section", False)


HEAD = ["ienv p1=4 p2=2 p3=4", "track on=1"]
CALLS = {
    "gssv": ["mat gen=random n=14 dens=300 fulldiag=1 seed=3 stype=NC", "permc order=1", "gssv P=2 nrhs=2"],
    "gssvx-NR-equil-T": ["mat gen=random n=14 dens=300 fulldiag=1 seed=3 stype=NR scale=both", "permc order=2", "gssvx P=3 fact=EQUILIBRATE trans=T nrhs=2"],
    "gssvx-user": ["mat gen=grid n=16 k=4 seed=5 stype=NC", "permc order=1", "gssvx P=2 fact=DOFACT trans=N nrhs=1 lwork=8000000"],
    "refact": ["mat gen=random n=14 dens=300 fulldiag=1 seed=3 stype=NC", "permc order=1", "gssvx P=2 fact=DOFACT trans=N nrhs=1", "vals seed=4",
               "gssvx P=2 fact=DOFACT refact=1 usepr=1 trans=N nrhs=1"],
    "factored": ["mat gen=random n=14 dens=300 fulldiag=1 seed=3 stype=NC", "permc order=1", "gssvx P=2 fact=DOFACT trans=N nrhs=1",
                 "gssvx P=1 fact=FACTORED trans=T nrhs=2"],
}


def acceptable(st, rec, n):
    if st in ("exit:42", "exit:1"):
        return True            # the library's abort path / "SUPERLU_MALLOC failed" exit, both with a diagnostic
    if st == "exit:0" and rec is not None:
        return rec["info"] > n + 1 or (not api.diagnose(rec) and rec.get("guard", 1) == 1)
    return False


def fault_enumeration(ck, quick, rng, wd):
    for prec in (("d",) if quick else ("d", "z", "s", "c")):
        api.driver(prec, "asan")
        for name, lines in CALLS.items():
            lines = HEAD + lines
            st, op, err = api.run_script("\n".join(lines) + "\n", wd, "fb_%s_%s" % (name, prec), prec=prec, variant="asan")
            recs = [r for r in api.calls_of(op) if r.get("call") in ("gssvx", "gssv")]
            if st != "exit:0" or not recs:
                ck.violation("fault:%s:base" % name, "recording run failed: %s %s" % (st, err[-300:]))
                continue
            K = recs[-1].get("reqs") or 130
            n = recs[-1]["n"]
            ks = list(range(1, K + 2)) if not quick else sorted(set(range(1, K + 2, 3)) | set(rng.sample(range(1, K + 2), 10)))

            def one(k):
                t = "\n".join(lines[:-1] + ["fail k=%d" % k, lines[-1]]) + "\n"
                s, o, e = api.run_script(t, wd, "fk_%s_%s_%d" % (name, prec, k), prec=prec, variant="asan", timeout=90)
                rr = [r for r in api.calls_of(o) if r.get("call") in ("gssvx", "gssv")]
                rec = rr[-1] if len(rr) == len(recs) else None
                d = [l for l in e.splitlines() if "SUMMARY" in l or "ERROR" in l]
                return k, s, rec, (d[-1][:160] if d else "")
            outcomes = {}
            for k, s, rec, d in common.pmap(one, ks):
                key = "fault:%s:%s:k%d" % (prec, name, k)
                ck.case(key, sample={"call": name, "precision": prec, "failing_request": k, "of": K, "outcome": s,
                                     "info": rec["info"] if rec else None} if len(ck.cov["samples"]) < 4 else None)
                cls = "diagnostic exit" if s in ("exit:42", "exit:1") else ("info>n" if rec and rec["info"] > n + 1 else ("valid result" if rec else s))
                outcomes[cls] = outcomes.get(cls, 0) + 1
                if not acceptable(s, rec, n):
                    site = d.split(" in ")[0].split("/")[-1] if d else s
                    ck.violation("fault:%s:%s" % (name, site), "precision %s, call %s, allocation request %d of %d (and all later ones) failed: outcome %s %s %s" % (
                        prec, name, k, K, s, d, api.diagnose(rec) if rec else ""), {"script": "\n".join(lines[:-1] + ["fail k=%d" % k, lines[-1]])})
            ck.notes["fault_outcomes_%s_%s" % (name, prec)] = outcomes


def apalache_inductive(ck):
    """Unbounded safety of the workspace stack object with Apalache: StackInv holds initially and is preserved by every action for ALL
    integer sizes and request lengths (two SMT queries, a few seconds); TLC and the recorded executions only see particular values."""
    import shutil, subprocess
    exe = shutil.which("apalache-mc")
    if not exe:
        ck.notes["apalache"] = "apalache-mc not on PATH: inductive-invariant check skipped"
        return
    wd = os.path.join(ck.dir, "apalache")
    os.makedirs(wd, exist_ok=True)
    shutil.copy(os.path.join(os.path.dirname(os.path.abspath(__file__)), "..", "spec", "SluStackInd.tla"), wd)
    res = []
    for name, args in (("initiation", ["--init=SInit", "--inv=StackInv", "--length=0"]),
                       ("consecution", ["--init=IndInit", "--next=Next", "--inv=StackInv", "--length=1"])):
        try:
            p = subprocess.run([exe, "check", "--out-dir=" + os.path.join(wd, "out"), "--run-dir=" + os.path.join(wd, "run_" + name)] + args + ["SluStackInd.tla"],
                               cwd=wd, capture_output=True, text=True, timeout=600)
            out = p.stdout + p.stderr
        except subprocess.TimeoutExpired:
            out = "TIMEOUT"
        ck.case("apalache:" + name)
        if "The outcome is: NoError" in out:
            res.append(name + ": NoError")
            ck.model(1, 1)
        elif "The outcome is: Error" in out:
            ck.violation("apalache:" + name, "Apalache: StackInv is not inductive (%s): see %s" % (name, wd))
        else:
            res.append(name + ": not decided")       # tool failure or time limit: not a verdict
    ck.notes["apalache_inductive_invariant_StackInv"] = res


def workspace_sizes(ck, quick, wd):
    items = []
    for P in (1, 2, 4):
        for pct in (1, 5, 10, 20, 30, 45, 60, 75, 90, 100, 115, 130, 200):
            for mat in ("mat gen=random n=20 dens=250 fulldiag=1 seed=3 stype=NC", "mat gen=grid n=25 k=5 seed=2 stype=NR"):
                # the workspace pointer as a caller gets it from an allocator (offset 0) or carves it out of a pool (4, 12 bytes in)
                items.append((P, pct, mat, (0, 4, 12)[(len(items) // 2) % 3] if pct >= 45 else 0))

    def one(a):
        P, pct, mat, woff = a
        txt = "\n".join(HEAD + [mat, "permc order=1", "gssvx P=%d fact=DOFACT trans=N nrhs=1 lwork=auto%d woff=%d" % (P, pct, woff)]) + "\n"
        st, op, err = api.run_script(txt, wd, "ws%d_%d_%d" % (P, pct, len(mat)), variant="asan", timeout=90)
        rr = [r for r in api.calls_of(op) if r.get("call") == "gssvx"]
        d = [l for l in err.splitlines() if "SUMMARY" in l or "ERROR" in l]
        # the workspace as the two-ended stack it is: every critical section of p?memory.c is a step of SluStack
        sr, sn = api.validate_stack(wd, "ws%d_%d_%d" % (P, pct, len(mat)), op) if os.path.exists(op) else (None, 0)
        return a, st, (rr[-1] if rr else None), (d[-1][:160] if d else ""), txt, sr, sn
    for (P, pct, mat, woff), st, rec, d, txt, sr, sn in common.pmap(one, items):
        key = "ws:P%d:%d%%:%s:+%d" % (P, pct, mat.split()[1], woff)
        ck.case(key)
        n = 20 if "n=20" in mat else 25
        if sr is not None:
            ck.model(sr.get("distinct", 0), sr.get("generated", 0))
            ck.notes["stack_events_validated"] = ck.notes.get("stack_events_validated", 0) + sn
            if tlc.inconclusive(sr):
                ck.notes["stack_traces_not_decided"] = ck.notes.get("stack_traces_not_decided", 0) + 1
            elif not sr["ok"]:
                rl = sr["rejected_line"]
                ck.violation("stack:" + key, "caller's workspace = %d %% of the estimate, %d thread(s): the workspace stack left SluStack (%s) at event %s: %s after %s" % (
                    pct, P, sr["violated"] or "step not allowed", rl, sr["events"][rl - 1] if rl else "?", sr["events"][rl - 2] if rl and rl > 1 else "start"), {"script": txt})
            else:
                ck.traces()
        if not acceptable(st, rec, n):
            ck.violation("wsmall:%d" % pct if pct <= 20 else key,
                         "caller's workspace = %d %% of the library's lwork=-1 estimate, starting %d bytes into an aligned arena, %d thread(s): outcome %s %s guard=%s" % (pct, woff, P, st, d, rec.get("guard") if rec else None),
                         {"script": txt})


def refact_same_workspace(ck, quick, wd):
    """a re-factorization in the workspace of the first factorization, with as many or MORE threads (more tail space than the first call
    needed) and a workspace close to what the first call needed: the factors at the head stay accounted for (SluStack!Reuse, ctx = 1),
    so the extra work arrays are either refused (info > n) or fit -- never carved out of the factors"""
    items = []
    for P1, P2 in ((1, 4), (1, 2), (2, 4), (4, 4), (4, 1)):
        for pct in ((100, 104, 115) if quick else (100, 102, 104, 108, 115, 130, 160)):
            for mat in ("mat gen=grid n=25 k=5 seed=2 stype=NC", "mat gen=random n=20 dens=250 fulldiag=1 seed=3 stype=NR"):
                for usepr in (0, 1):
                    items.append((P1, P2, pct, mat, usepr))

    def one(a):
        P1, P2, pct, mat, usepr = a
        txt = "\n".join(HEAD + [mat, "permc order=1", "gssvx P=%d fact=DOFACT trans=N nrhs=1 lwork=auto%d woff=%d" % (P1, pct, (0, 4, 8)[pct % 3]), "vals seed=4",
                                "gssvx P=%d fact=DOFACT refact=1 usepr=%d trans=N nrhs=1 lwork=auto%d" % (P2, usepr, pct)]) + "\n"
        name = "rf%d_%d_%d_%d_%d" % (P1, P2, pct, len(mat), usepr)
        st, op, err = api.run_script(txt, wd, name, variant="asan", timeout=120)
        rr = [r for r in api.calls_of(op) if r.get("call") == "gssvx"]
        d = [l for l in err.splitlines() if "SUMMARY" in l or "ERROR" in l]
        sr, sn = api.validate_stack(wd, name, op) if os.path.exists(op) else (None, 0)
        return a, st, rr, (d[-1][:160] if d else ""), txt, sr, sn
    for (P1, P2, pct, mat, usepr), st, rr, d, txt, sr, sn in common.pmap(one, items):
        key = "refactws:P%d-P%d:%d%%:%s:usepr%d" % (P1, P2, pct, mat.split()[1], usepr)
        ck.case(key)
        n = 20 if "n=20" in mat else 25
        if sr is not None and not tlc.inconclusive(sr):
            ck.model(sr.get("distinct", 0), sr.get("generated", 0))
            ck.notes["stack_events_validated"] = ck.notes.get("stack_events_validated", 0) + sn
            if not sr["ok"]:
                rl = sr["rejected_line"]
                ck.violation("stack:" + key, "first factorization with %d thread(s), re-factorization with %d in the same workspace (%d %% of the estimate): the workspace stack left SluStack (%s) at event %s: %s after %s" % (
                    P1, P2, pct, sr["violated"] or "step not allowed", rl, sr["events"][rl - 1] if rl else "?", sr["events"][rl - 2] if rl and rl > 1 else "start"), {"script": txt})
            else:
                ck.traces()
        # the first call may legitimately fail for lack of space (then the second has nothing to re-factor: the harness skips it)
        if len(rr) >= 1 and rr[0]["info"] > n + 1:
            continue
        if not acceptable(st, rr[-1] if len(rr) == 2 else None, n):
            ck.violation(key, "first factorization with %d thread(s), re-factorization with %d in the same workspace (%d %% of the lwork=-1 estimate): outcome %s %s %s guard=%s" % (
                P1, P2, pct, st, d, api.diagnose(rr[-1]) if len(rr) == 2 else "", rr[-1].get("guard") if rr else None), {"script": txt})


def user_vs_system(ck, rng, wd, count):
    for i in range(count):
        r = random.Random(rng.randrange(10 ** 9))
        prec = ("d", "s", "z", "c")[i % 4]
        api.driver(prec)
        gen = r.choice(["random", "banded", "grid"])
        stype = r.choice(["NC", "NR"])
        if gen == "grid":
            mat = "mat gen=grid n=16 k=4 seed=%d stype=%s" % (r.randrange(10 ** 6), stype)
        elif gen == "banded":
            mat = "mat gen=banded n=%d seed=%d stype=%s kl=2 ku=1" % (r.randint(4, 30), r.randrange(10 ** 6), stype)
        else:
            mat = "mat gen=random n=%d seed=%d stype=%s dens=250 fulldiag=1" % (r.randint(4, 30), r.randrange(10 ** 6), stype)
        call = "gssvx P=1 fact=%s trans=%s nrhs=2 seed=7 lwork=%s" % (r.choice(["DOFACT", "EQUILIBRATE"]), r.choice(["N", "T"]), "%s")
        pc = "permc order=%d" % r.choice([0, 1, 3])
        outs = []
        for lw in ("0", "auto150 woff=%d" % r.choice([0, 4, 8])):
            st, op, err = api.run_script("\n".join(HEAD + [mat, pc, call % lw]) + "\n", wd, "uvs%d_%s" % (i, lw.split()[0]), prec=prec)
            rr = [x for x in api.calls_of(op) if x.get("call") == "gssvx"]
            outs.append((st, rr[-1] if rr else None))
        key = "uvs:%s:%s" % (prec, mat)
        ck.case(key)
        (s0, r0), (s1, r1) = outs
        if s0 != "exit:0" or s1 != "exit:0" or not r0 or not r1:
            ck.violation(key, "user-vs-system comparison did not run: %s %s" % (s0, s1))
        elif r1["info"] <= r1["n"] + 1 and (r0["outh"] != r1["outh"] or r0["info"] != r1["info"]):
            ck.violation(key, "results in the caller's workspace differ from the internally allocated mode (1 thread): info %s vs %s, hashes %s vs %s" % (r1["info"], r0["info"], r1["outh"], r0["outh"]))
        else:
            ck.traces(2)


def main(tier):
    ck = common.Check("C14", tier, "fault_enumeration")
    rng = random.Random(ck.seed * 1000003 + 14)
    quick = tier == "quick"
    build.ensure("verif")
    build.ensure("asan")
    ck.cov["rule"] = ("fault points = every allocation request issued during a driver call (numbered by a recording run), for five kinds of call; "
                      "every k (thorough) or every 3rd plus 10 random (quick) is made to fail together with all later requests; workspace sizes = 13 "
                      "classes x P in {1,2,4} x 2 matrices; plus query/user-workspace histories enumerated by TLC; distinct = distinct "
                      "(call, precision, k) + (P, size class, matrix) + histories")
    ck.assumptions += ["allocation failure is simulated at the USER_MALLOC seam and the wrapped raw malloc/calloc: request k and all later ones return NULL",
                       "the library's exit(1) after 'SUPERLU_MALLOC failed' and its USER_ABORT path both count as 'stops with a diagnostic'",
                       "workspaces of at most 20 % of the library's own estimate are the recorded finding F5"]
    sens = mem_model(ck)
    wd = os.path.join(ck.dir, "api")
    os.makedirs(wd, exist_ok=True)
    apicheck.run_histories(ck, ["mat", "vals", "gssvx", "destroy", "user", "query", "trans"], 3, 40 if quick else 400, rng, precs=("d", "s", "z", "c"),
                           threads=(1, 2, 4), nmax=24, hist_filter=lambda h: any(c.get("lw") in ("user", "query") for c in h), validate_pipe=False)
    user_vs_system(ck, rng, wd, 8 if quick else 60)
    apalache_inductive(ck)
    workspace_sizes(ck, quick, wd)
    refact_same_workspace(ck, quick, wd)
    fault_enumeration(ck, quick, rng, wd)
    rc = ck.finish()
    if not sens:
        print("SELFTEST-FAIL: SluMem does not reject the release-at-first-exit policy / the alignment in a second critical section")
        return 3
    return rc


if __name__ == "__main__":
    sys.exit(main(sys.argv[1] if len(sys.argv) > 1 else "quick"))
