"""C06  Singular matrices are reported through info, never by crash or corruption.

Model: SluPipe with ZeroPivots = TRUE (each worker keeps the minimum of the zero-pivot columns it
met, the master takes the minimum over the workers: Finished => minfo = min(zset), for every
interleaving), SluApi (drivers: 0 < info <= n, no solution written: the simple driver leaves B, the
expert driver leaves X and changes B at most by the reported scaling; outputs destroyable).
Binding: recorded factorizations of matrices with one to three exactly-zero columns in different
subtrees (1..16 threads, perturbation) validated against SluPipeTrace -- the Exit event of every
worker must carry the minimum of its own zero-pivot columns, Wrap the global minimum, the Result the
same info; histories with singular matrices through both drivers validated against SluApiTrace.
Expected info for explicit-zero columns = 1 + position (in A*Pc order) of the first zero column,
which the harness computes from the returned perm_c and the trace specification compares.
"""
import sys, os, random
sys.path.insert(0, os.path.join(os.path.dirname(os.path.abspath(__file__)), "..", "lib"))
import common, build, tlc, pipe, forests, pipecheck, apicheck
from pipecheck import replay


def main(tier):
    ck = common.Check("C06", tier, "model_checking")
    rng = random.Random(ck.seed * 1000003 + 6)
    build.ensure("verif")
    quick = tier == "quick"
    ck.cov["rule"] = ("model: SluPipe with zero pivots, exhaustive per forest (info = minimum over all zero-pivot columns for every interleaving); "
                      "implementation: (a) recorded factorizations of matrices with 1..3 exactly-zero columns (explicit zeros) validated against "
                      "SluPipeTrace, expected info = first zero column in A*Pc order; (b) driver histories with singular matrices validated "
                      "against SluApiTrace; distinct = distinct model runs + jobs + histories")
    ck.assumptions += ["structurally singular patterns (a column with no candidate row at all) are outside this check: see known finding F3"]
    # (1) model
    wd = os.path.join(ck.dir, "mcz")
    tlc.stage(wd)
    fs = forests.all_forests(3) + (rng.sample(forests.all_forests(4), 6) if quick else forests.all_forests(4) + rng.sample(forests.all_forests(5), 4))

    def one(a):
        i, f = a
        return f, tlc.pipe_mc(wd, "z%d" % i, f, forests.min_sbnd(f), 2, rng.choice([1, 2, 3]), rng.choice([1, 2]), 2, zero=True, liveness=False, timeout=1500)
    for f, r in common.pmap(one, list(enumerate(fs))):
        ck.model(r["distinct"], r["generated"])
        if r["timeout"]:
            continue
        ck.case("mcz:%s" % f)
        if not r["ok"]:
            ck.violation("mcz:%s" % f, "model with zero pivots violates %s for forest %s" % (r["violated"] or r["errors"][:2], f))
    # (2) recorded factorizations with several zero columns
    out = os.path.join(ck.dir, "tr")
    os.makedirs(out, exist_ok=True)
    jobs = []
    for i in range(60 if quick else 500):
        j = pipe.random_job(rng, i, out, nmax=40 if quick else 100, threads=(1, 2, 3, 4, 8, 16), kinds=("forest", "forest", "random", "banded", "grid"))
        n = j.get("n") or len(j["par"].split(","))
        k = rng.choice([1, 2, 2, 3])
        j["zc"] = ",".join(str(c) for c in sorted(rng.sample(range(n), min(k, n))))
        j["pert"] = rng.choice([0, 30, 60])
        if j["gen"] == "forest":     # several trees so that zero columns sit in different subtrees
            j["par"] = ",".join(map(str, forests.random_forest(n, rng, chain_bias=0.4, root_prob=0.3)))
        jobs.append(j)
    # many zero columns spread over several trees, few workers, delays: a worker then meets zero-pivot columns in
    # decreasing order (a later tree's leaves before an earlier tree's top), the schedule in which "keep the minimum" matters
    for i in range(24 if quick else 200):
        j = pipe.random_job(rng, 1000 + i, out, nmax=36, threads=(2, 2, 3, 4), kinds=("forest",))
        n = rng.randint(10, 36)
        j["par"] = ",".join(map(str, forests.random_forest(n, rng, chain_bias=0.5, root_prob=0.25)))
        j.pop("n", None)
        j["zc"] = ",".join(str(c) for c in sorted(rng.sample(range(n), max(2, n // 3))))
        j["pert"] = rng.choice([30, 60, 90])
        j["ps"] = rng.choice([1, 2, 3])
        j["relax"] = rng.choice([1, 2, 3])
        jobs.append(j)

    def judge(j, cfg, res):
        if res is None:
            return "no result record"
        zc = [int(x) for x in j["zc"].split(",")]
        pc = [p - 1 for p in res["permc"]]             # perm_c[j] = position of column j of A in A*Pc
        exp = min(pc[c] for c in zc) + 1
        if res["info"] != exp:
            return "info = %d, but the first exactly-zero column of A*Pc is at position %d (zero columns of A: %s)" % (res["info"], exp, zc)
        return None
    pipecheck.run_traces(ck, jobs, out, judge=judge, precs=("d",) if quick else ("d", "s", "z", "c"))
    # (2b) structurally singular patterns (a column without any pivot candidate): recorded finding F3
    ss = []
    for k, pat in enumerate(["1000100000110011", "1000010000100000", "1100000000110011", "1010010000010100"]):
        ss.append({"id": "ss%d" % k, "gen": "pattern", "n": 4, "pat": pat, "P": 1, "ps": 2, "relax": 1, "maxsuper": 2,
                   "seed": 5, "out": os.path.join(out, "ss%d.ndjson" % k)})
    build.ensure("asan")
    st = pipe.run_jobs(ss, out, variant="asan")
    for j in ss:
        s_ = st.get(j["id"], "missing")
        ck.case("structsing:" + j["pat"])
        bad = s_ != "ok"
        if not bad and os.path.exists(j["out"]):
            import json as _json
            res = _json.loads(open(j["out"]).readlines()[-1])
            bad = not (0 < res.get("info", 0) <= 4) or sorted(res.get("permr", [])) != [1, 2, 3, 4]
        if bad:
            ck.violation("structsing:" + j["pat"], "structurally singular 4x4 pattern %s: outcome %s (crash, info = 0, or perm_r not a permutation)" % (j["pat"], s_), {"job": j})
    # (3) both drivers
    apicheck.run_histories(ck, ["mat", "vals", "gssv", "gssvx", "destroy", "singular", "equil", "trans"], 3, 40 if quick else 400, rng,
                           precs=("d", "s", "z", "c"), threads=(1, 2, 4), nmax=20,
                           hist_filter=lambda h: any(c.get("sing") for c in h) and any(c["call"] in ("gssv", "gssvx") for c in h))
    return ck.finish()


if __name__ == "__main__":
    sys.exit(main(sys.argv[1] if len(sys.argv) > 1 else "quick"))
