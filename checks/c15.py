"""C15  Illegal arguments yield info = -i for the first offender and no side effects.

Model: SluArgs.tla -- Pos is a literal transcription of the documented "-i = i-th argument" tables
of p?gssv, p?gssvx, ?gstrs, ?gsrfs, ?gscon, ?gsequ, sp_?trsv, sp_?gemv; Expected = smallest
position among the violated arguments.  TLC enumerates EVERY single violation and EVERY pair
(SluArgs!Cases) and evaluates ArgOK on the record of each executed case: info = -Expected, the
error handler called exactly once with that position, every argument-reachable object
bit-identical afterwards, no allocation retained.
Binding: harness/drv_args.c executes each case against a valid 6x6 system with existing factors
(xerbla_ replaced through --wrap), in four precisions.
"""
import sys, os, random, re, subprocess, json
sys.path.insert(0, os.path.join(os.path.dirname(os.path.abspath(__file__)), "..", "lib"))
import common, build, tlc

PRECS = {"s": 1, "d": 2, "c": 3, "z": 4}


def main(tier):
    ck = common.Check("C15", tier, "model_checking")
    build.ensure("verif")
    ck.cov["rule"] = ("complete enumeration by TLC of SluArgs!Cases = every single violated precondition and every compatible pair, for eight "
                      "routines, executed in four precisions; one TLC state per validated record; distinct = (precision, routine, violation set)")
    ck.cov["exhaustive"] = True
    wd = os.path.join(ck.dir, "args")
    os.makedirs(wd, exist_ok=True)
    tlc.stage(wd)
    with open(os.path.join(wd, "MCArgs.tla"), "w") as f:
        f.write("---- MODULE MCArgs ----\nEXTENDS SluArgs\nASSUME PrintT(<<\"CASES\", Cases>>)\nVARIABLE x\nInit == x = 0\nNext == x' = x\n====\n")
    with open(os.path.join(wd, "MCArgs.cfg"), "w") as f:
        f.write("INIT Init\nNEXT Next\n")
    r = tlc.run(wd, "MCArgs", os.path.join(wd, "MCArgs.cfg"), timeout=300)
    m = re.search(r'<<\s*"CASES",(.*?)>>\s*\n(?=\S)', r["out"], re.S)
    txt = r["out"][r["out"].find('"CASES"'):]
    cases = re.findall(r'<<"(\w+)",\s*\{([^}]*)\}>>', txt)
    cases = sorted({(rt, ",".join(sorted(x.strip().strip('"') for x in v.split(",")))) for rt, v in cases})
    ck.model(max(1, len(cases)), max(1, len(cases)))
    ck.notes["cases_enumerated_by_TLC"] = len(cases)
    if len(cases) < 50:
        ck.violation("enum", "TLC enumerated only %d cases: %s" % (len(cases), r["errors"][:2]))
        return ck.finish()
    cf = os.path.join(wd, "cases.txt")
    with open(cf, "w") as f:
        for rt, v in cases:
            f.write("%s %s\n" % (rt, v))
    for prec in ("d", "s", "z", "c"):
        exe = build.harness("drv_args_" + prec, ["drv_args.c", "verif_rt.c"], defines=["PREC=%d" % PRECS[prec]],
                            wrap=["xerbla_", "malloc", "free", "calloc"])
        out = os.path.join(wd, "rec_%s.ndjson" % prec)
        p = subprocess.run([exe, cf, out], capture_output=True, text=True, timeout=600)
        recs = [json.loads(l) for l in open(out)] if os.path.exists(out) else []
        if p.returncode != 0 or len(recs) != len(cases):
            ck.violation("run:" + prec, "argument driver stopped after %d of %d cases (exit %s): %s" % (len(recs), len(cases), p.returncode, p.stderr[-400:]))
            continue
        with open(os.path.join(wd, "TRArgs_%s.tla" % prec), "w") as f:
            f.write("---- MODULE TRArgs_%s ----\nEXTENDS SluArgsTrace\n====\n" % prec)
        cfg = os.path.join(wd, "TRArgs_%s.cfg" % prec)
        with open(cfg, "w") as f:
            f.write("SPECIFICATION TSpec\nCONSTRAINT Progress\nPOSTCONDITION Accepted\nCHECK_DEADLOCK FALSE\n")
        # validate record by record so that every failing case is reported, not only the first
        v = tlc.run(wd, "TRArgs_" + prec, cfg, timeout=600, env={"TRACE": out})
        ck.model(v["distinct"], v["generated"])
        bad = []
        if not v["ok"]:
            # find all failing records: re-validate the remainder after each rejection
            rest = recs
            base = 0
            while True:
                rl = v["rejected_line"]
                if not rl:
                    bad.append((None, "TLC error %s" % v["errors"][:2]))
                    break
                bad.append((rest[rl - 1], None))
                rest = rest[rl:]
                if not rest:
                    break
                tmp = os.path.join(wd, "rest_%s.ndjson" % prec)
                with open(tmp, "w") as f:
                    for x in rest:
                        f.write(json.dumps(x) + "\n")
                v = tlc.run(wd, "TRArgs_" + prec, cfg, timeout=600, env={"TRACE": tmp})
                if v["ok"]:
                    break
        badset = {json.dumps(b[0], sort_keys=True) for b in bad if b[0]}
        for rec in recs:
            key = "arg:%s:%s:%s" % (prec, rec["routine"], "+".join(rec["viol"]))
            ck.case(key, sample=rec if len(ck.cov["samples"]) < 4 else None)
            if json.dumps(rec, sort_keys=True) in badset:
                ck.violation("arg:%s:%s" % (rec["routine"], "+".join(rec["viol"])),
                             "precision %s: %s with violated %s: info %s, error handler called %d time(s) with position %s (%s), objects unchanged %s, live blocks %s -> %s" % (
                                 prec, rec["routine"], rec["viol"], rec["info"], rec["xcount"], rec["xpos"], rec["xname"], rec["unch"], rec["live0"], rec["live1"]), {"record": rec})
            else:
                ck.traces()
        for b in bad:
            if b[0] is None:
                ck.violation("tlc:" + prec, b[1])
    return ck.finish()


if __name__ == "__main__":
    sys.exit(main(sys.argv[1] if len(sys.argv) > 1 else "quick"))
