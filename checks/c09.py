"""C09  Returned L, U and permutations are well-formed data structures.

Model: SluLU.WellFormedLU (bijections, contiguous supernode partition with mutually consistent maps,
row lists = own columns then distinct larger rows, U rows in range / duplicate-free / above the
supernode, disjoint extents, nnz = counted, supernode index order respects the triangular dependency
order) -- established for the final state of SluPipe through JoinAll/FixupMove/Wrap for every
interleaving (CompactionSafe, TopoNumbering, SupernodeMaps, LsubDisjoint), and evaluated by TLC on
the structure projected from every real factorization (first-time, refactored, internal and user
workspace, static and dynamic supernode storage, four precisions).
"""
import sys, os, random
sys.path.insert(0, os.path.join(os.path.dirname(os.path.abspath(__file__)), "..", "lib"))
import common, tlc, pipe, forests, build, pipecheck
from pipecheck import replay

INVS = ["TypeOK", "TopoNumbering", "SupernodeMaps", "LsubDisjoint", "CompactionSafe", "Finished", "OncePerPanel"]


def mc_plan(tier, rng):
    plan = []
    ns = (3, 4) if tier == "quick" else (3, 4, 5)
    for n in ns:
        for f in forests.all_forests(n):
            for sb in forests.sbnd_choices(f, rng, 2 if tier == "quick" else 3):
                plan.append((f, sb, 2, rng.choice([1, 2, 3]), rng.choice([1, 2, 3]), rng.choice([2, 3, 4]), False))
    if tier != "quick":
        for f in forests.all_forests(4):
            plan.append((f, forests.min_sbnd(f), 3, rng.choice([1, 2]), 1, 2, False))
    return plan


def main(tier):
    ck = common.Check("C09", tier, "model_checking")
    rng = random.Random(ck.seed * 1000003 + 9)
    build.ensure("verif")
    ck.cov["rule"] = ("model: exhaustive SluPipe runs (numbering, storage and fixupL invariants) per (forest, H-partition, parameters); "
                      "implementation: every recorded factorization ends with a Result record carrying the complete L/U/permutation "
                      "structure (n <= 80), on which TLC evaluates SluLU!WellFormedLU and equality with the model's supernode maps; "
                      "job mix: first-time / refactor / refactor with usepr, internal / user workspace, static supernode storage (the dynamic mode is exercised by C05)")
    ck.assumptions += ["structures with n > 80 are not logged in full (only counts)", "interleavings: sequentially consistent"]
    pipecheck.run_mc(ck, mc_plan(tier, rng), timeout=600 if tier == "quick" else 3000)
    out = os.path.join(ck.dir, "tr")
    os.makedirs(out, exist_ok=True)
    n = 120 if tier == "quick" else 800
    jobs = []
    for i in range(n):
        j = pipe.random_job(rng, i, out, nmax=40 if tier == "quick" else 80, threads=(1, 2, 4, 8))
        j["pert"] = rng.choice([0, 10, 40])
        m = i % 6 if i % 2 else 4
        if m == 1:
            j["lwork"] = 8000000
        if m == 2:
            j["refact"] = 1
        if m == 3:
            j["refact"] = 2
            j["lwork"] = 8000000
        if m == 4:     # several trees, many threads: numbering and storage order diverge most easily
            j.update(gen="forest", par=",".join(map(str, forests.random_forest(rng.randint(6, 30), rng, chain_bias=0.3, root_prob=0.4))),
                     dens=60, lowfill=50, P=rng.choice([4, 8, 16]), pert=rng.choice([30, 60, 90]), relax=rng.choice([1, 2, 3]),
                     focus="unlock", focuspct=rng.choice([30, 50, 70]), focusus=rng.choice([100, 300, 600]))
            j.pop("n", None)
        if m == 5:
            j["refact"] = 2
        jobs.append(j)

    def judge(j, cfg, res):
        if res is None:
            return "no result record"
        if res.get("info") == 0 and "supno" not in res:
            return "structure not logged"
        return None
    precs = ("d",) if tier == "quick" else ("d", "s", "z", "c")
    pipecheck.run_traces(ck, jobs, out, precs=precs, judge=judge)
    return ck.finish()


if __name__ == "__main__":
    sys.exit(main(sys.argv[1] if len(sys.argv) > 1 else "quick"))
