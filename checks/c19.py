"""C19  Sparse kernels and format utilities agree with their dense definitions.

Model: SluKernels.tla -- dense definitions over (Gaussian) integers: y := alpha op(A) x + beta y,
C := alpha op(A) B + beta C, op(T) x = b for the unit-lower / upper factor of a factored integer
matrix, max / one / infinity norms, compressed-row to compressed-column conversion and copy.
Binding: harness/drv_kern.c calls sp_?gemv, sp_?gemm, sp_?trsv, ?langs, ?CompRow_to_CompCol,
?Copy_CompCol_Matrix of the real library on small integer data (all alpha/beta incl. 0 and 1,
op in {N,T,C}, padded leading dimensions), in four precisions; on this domain every result must
be BIT-IDENTICAL to the TLA+ value, which TLC checks record by record.
Not covered by the exact domain and recorded as findings: non-unit increments of sp_?gemv (F11:
the routine aborts with "Not implemented") and the Frobenius norm of ?langs (F15: "Not implemented").
"""
import sys, os, random, subprocess, re
sys.path.insert(0, os.path.join(os.path.dirname(os.path.abspath(__file__)), "..", "lib"))
import common, build, tlc

PRECS = {"s": 1, "d": 2, "c": 3, "z": 4}


def main(tier):
    ck = common.Check("C19", tier, "exploration")
    build.ensure("verif")
    quick = tier == "quick"
    ck.cov["rule"] = ("random small-integer cases (entries -2..2, Gaussian integers for c/z), 5 kinds of kernel call, per precision; TLC "
                      "recomputes the dense definition of SluKernels.tla for every record and requires exact equality; distinct = distinct records")
    ck.assumptions += ["exact (bitwise) agreement is checked only on the integer domain; rounding-bound agreement on general values is exercised "
                       "indirectly by the residual / reconstruction clauses of C01, C02, C07", "unit increments only (see F11)"]
    wd = os.path.join(ck.dir, "kern")
    os.makedirs(wd, exist_ok=True)
    tlc.stage(wd)
    count = 600 if quick else 8000

    import json

    def one(prec):
        exe = build.harness("drv_kern_" + prec, ["drv_kern.c", "verif_rt.c"], defines=["PREC=%d" % PRECS[prec]])
        f = os.path.join(wd, "k_%s.ndjson" % prec)
        p = subprocess.run([exe, f, str(count), str(ck.seed * 7 + PRECS[prec]), "1"], capture_output=True, text=True, timeout=1200)
        recs = [json.loads(l) for l in open(f)] if os.path.exists(f) else []
        # complex conjugate-transpose cases are a recorded finding (F18/F16): validated apart
        conj = [r for r in recs if prec in "cz" and r.get("trans") == "C" and r["k0"] in ("gemv", "gemm", "trsv")]
        rest = [r for r in recs if not (prec in "cz" and r.get("trans") == "C" and r["k0"] in ("gemv", "gemm", "trsv"))]
        bad, states, errors = tlc.validate_records(wd, "k" + prec, "SluKernelsTrace", rest)
        cbad, cstates, cerr = tlc.validate_records(wd, "kc" + prec, "SluKernelsTrace", conj, max_bad=3) if conj else ([], 0, [])
        return prec, rest, conj, bad, cbad, states + cstates, errors + cerr, p.returncode, p.stderr
    for prec, rest, conj, bad, cbad, states, errors, rc, err in common.pmap(one, ["d", "s", "z", "c"], workers=4):
        ck.model(states, states)
        if rc != 0 or not rest:
            ck.violation("kern:%s:run" % prec, "kernel driver failed (exit %s): %s" % (rc, err[-300:]))
            continue
        kinds = {}
        for r in rest + conj:
            kinds[r["k0"]] = kinds.get(r["k0"], 0) + 1
        ck.notes["records_%s" % prec] = kinds
        for e in errors:
            ck.violation("kern:%s:tlc" % prec, "TLC error while validating kernel records: %s" % e)
        for i, r in enumerate(rest):
            ck.case("kern:%s:%d" % (prec, i), sample=r if len(ck.cov["samples"]) < 3 else None)
            if i in bad:
                ck.violation("kern:%s:%s" % (r["k0"], r.get("trans", "")), "precision %s: %s result differs from the dense definition: %s" % (prec, r["k0"], json.dumps(r)[:900]), {"record": r})
            else:
                ck.traces()
        for i in cbad[:1]:
            r = conj[i]
            ck.violation("conj:%s" % r["k0"], "precision %s: %s with trans = 'C' does not compute the conjugate transpose: %s" % (prec, r["k0"], json.dumps(r)[:600]), {"record": r})
        m = re.search(r"FROB status=(-?\d+)", err)
        if m:
            ck.case("frob:" + prec)
            if int(m.group(1)) != 0:
                ck.violation("frob:" + prec, "precision %s: ?langs('F') ended with status %s (aborts 'Not implemented')" % (prec, m.group(1)))
        # strided increments: the library's answer is an abort
        for m in re.finditer(r"STRIDED trans=(\w) inc=(-?\d+) status=(-?\d+)", err):
            t, inc, st = m.group(1), int(m.group(2)), int(m.group(3))
            ck.case("stride:%s:%s:%d" % (prec, t, inc))
            if st != 0:
                ck.violation("stride:%s:%d" % (t, inc), "precision %s: sp_?gemv(trans=%s) with increment %d ended with status %d (aborts 'Not implemented')" % (prec, t, inc, st))
    return ck.finish()


if __name__ == "__main__":
    sys.exit(main(sys.argv[1] if len(sys.argv) > 1 else "quick"))
